"""C09 — Deref and DerefMut expose exactly the designated field."""
import os, time
from .. import common, gen, b1


class P(b1.Plugin):
    ops = ("deref", "derefmut", "write")
    driver_traits = (("deref", "Deref"), ("derefmut", "DerefMut"))
    rule = ("struct/enum definitions with 1-5 same-typed fields per variant (value fields `L`, and `&'static L` and `&'static &'static L` reference fields, and `Box<L>` designated fields in later variants, when "
            "only Deref is educed), named and tuple shapes, Deref alone or Deref+DerefMut with independently placed markers (possibly "
            "on different fields), sole-field variants with and without marker; observed: which field's storage (or referent) has "
            "the address of `&*x` / `&mut *x`, and which fields change after a write through `&mut *x`. "
            "distinct_nontrivial = definitions with a variant of >=2 fields")

    def make(self, rng, i):
        self.rng = rng
        kind = rng.choice(["struct", "enum", "enum"])
        with_mut = rng.random() < 0.6
        while True:
            td = gen.make_skeleton(rng, i, kind, ["L"], max_fields=5, max_variants=3)
            # no unit shapes, at least one field everywhere (refused otherwise; see C13)
            if td.variants and all(v.shape != "unit" and v.fields for v in td.variants):
                break
        metas = ["Deref"] + (["DerefMut"] if with_mut else [])
        td.traits = [", ".join(metas)] if rng.random() < 0.5 else metas
        td.with_mut = with_mut
        for vi, v in enumerate(td.variants):
            n = len(v.fields)
            di = rng.randrange(n)
            mi = rng.randrange(n) if rng.random() < 0.5 else di
            # in a later variant the designated field may be spelled differently and still coerce to the first
            # variant's target: `Box<L>` (the impl's Target is taken from the first variant)
            boxed_j = di if (kind == "enum" and vi > 0 and rng.random() < 0.25) else None
            for j, f in enumerate(v.fields):
                is_ref = (not with_mut) and rng.random() < 0.3
                f.is_ref = is_ref
                f.ref2 = is_ref and rng.random() < 0.3          # a reference to a reference: the target is still L
                if is_ref:
                    f.ty_src = "&'static &'static L" if f.ref2 else "&'static L"
                dflag = (j == di) and (n > 1 or rng.random() < 0.5)
                mflag = with_mut and (j == mi) and (n > 1 or rng.random() < 0.5)
                f.boxed = (j == boxed_j) and not is_ref and (not with_mut or mi == di)
                if f.boxed:
                    f.ty_src = "Box<L>"
                f.req["Deref"] = {"flag": dflag, "isRef": is_ref}
                f.req["DerefMut"] = {"flag": mflag, "isRef": is_ref}
                ms = (["Deref"] if dflag else []) + (["DerefMut"] if mflag else [])
                rng.shuffle(ms)
                f.metas = ms
        noise = [t for t in ("Debug",) if rng.random() < 0.3]
        gen.finalize_attrs(rng, td, noise)
        # addresses of every field's storage (or referent)
        arms = []
        for k, v in enumerate(td.variants):
            head = td.name if td.kind == "struct" else "%s::%s" % (td.name, v.name)
            names = ["f%d" % j for j in range(len(v.fields))]
            addrs = ", ".join(("(**%s) as *const L as usize" if getattr(f, "ref2", False) else "(&**%s) as *const L as usize" if getattr(f, "boxed", False) else "(*%s) as *const L as usize" if f.is_ref else "%s as *const L as usize") % n for f, n in zip(v.fields, names))
            ids = ", ".join("Leaf::id(%s%s)" % ("**" if getattr(f, "ref2", False) else "&**" if getattr(f, "boxed", False) else "*" if f.is_ref else "", n) for f, n in zip(v.fields, names))
            if v.shape == "tuple":
                arms.append("%s(%s) => (%d, vec![%s], vec![%s])," % (head, ", ".join(names), k, addrs, ids))
            else:
                arms.append("%s { %s } => (%d, vec![%s], vec![%s])," % (head, ", ".join("%s: %s" % (f.name, n) for f, n in zip(v.fields, names)), k, addrs, ids))
        td.extra_items = ["fn addrs(x: &%s) -> (usize, Vec<usize>, Vec<usize>) { match x { %s } }" % (td.name, " ".join(arms))]
        return td

    def nontrivial(self, td):
        return any(len(v.fields) >= 2 for v in td.variants)

    def observe(self, td, vals):
        out = []
        for k, ids in vals:
            v = td.variants[k]
            args = []
            for j, (f, i) in enumerate(zip(v.fields, ids)):
                args.append("&RS[%d][%d]" % (j, i) if getattr(f, "ref2", False) else "Box::new(<L as Leaf>::d(%d))" % i if getattr(f, "boxed", False) else "&LS[%d][%d]" % (j, i) if f.is_ref else "<L as Leaf>::d(%d)" % i)
            head = td.name if td.kind == "struct" else "%s::%s" % (td.name, v.name)
            e = "%s(%s)" % (head, ", ".join(args)) if v.shape == "tuple" else "%s { %s }" % (head, ", ".join("%s: %s" % (f.name, a) for f, a in zip(v.fields, args)))
            out.append(f'''
        {{ let mut x = {e}; let (k, ad, ids) = addrs(&x);
          let p = &*x as *const L as usize; let hit: Vec<usize> = (0..ad.len()).filter(|i| ad[*i] == p).collect();
          println!("[\\"deref\\",{td.id},{{}},{{}},{{}}]", k, ju(&ids), if hit.len() == 1 {{ hit[0] as i64 }} else {{ -1 }});''')
            if td.with_mut:
                out.append(f'''          let q = &mut *x as *mut L as usize; let hit: Vec<usize> = (0..ad.len()).filter(|i| ad[*i] == q).collect();
          println!("[\\"derefmut\\",{td.id},{{}},{{}},{{}}]", k, ju(&ids), if hit.len() == 1 {{ hit[0] as i64 }} else {{ -1 }});
          *(&mut *x) = L(77); let (_, _, after) = addrs(&x);
          let changed: Vec<usize> = (0..ids.len()).filter(|i| ids[*i] != after[*i]).collect();
          println!("[\\"write\\",{td.id},{{}},{{}},{{}}]", k, ju(&ids), ju(&changed));''')
            out.append("        }")
        return "\n".join(out)

    def canon(self, r):
        return r


GENERIC_DEREF = [
    ("#[educe(Deref)] pub struct G%d<T = u8>(pub T);", "G%d::<u8>(7)", "0"),
    ("#[educe(Deref, DerefMut)] pub struct G%d<T = u8, const N: usize = 2>(pub [u8; N], #[educe(Deref, DerefMut)] pub T);", "G%d::<u16, 2>([1, 2], 7)", "1"),
    ("#[educe(Deref)] pub struct G%d<'a, T: ?Sized = str> { pub a: u8, #[educe(Deref)] pub b: &'a T }", "G%d::<str> { a: 1, b: \"xy\" }", "*1"),
    ("#[educe(Deref, DerefMut)] pub enum G%d<T, U = T> where T: Copy { A(T), B { #[educe(Deref, DerefMut)] x: T, y: U } }", "G%d::<u8, u16>::B { x: 3, y: 4 }", "B0"),
    ("#[educe(Deref)] pub enum G%d<'a, T> { A(&'a T), B(#[educe(Deref)] &'a T, u8), C { x: Box<T> } }", "G%d::C { x: Box::new(9u8) }", "skip"),
    ("#[educe(Deref, DerefMut)] pub struct G%d<const N: usize>(#[educe(Deref, DerefMut)] pub [u8; N], pub u8);", "G%d::<3>([1, 2, 3], 4)", "0"),
]


def generic_deref_tie(tie):
    """generic parameter lists (defaults, const parameters, lifetimes, where-clauses) on Deref / DerefMut: the impls must
    compile, and `&*x` must be the designated field"""
    import subprocess
    so = common.build_proc_macro()
    work = common.scratch("C09g")
    parts = ["#![allow(warnings)]", "use educe::Educe;"]
    mains = []
    for i, (t, val, where) in enumerate(GENERIC_DEREF):
        parts.append("#[derive(Educe)] " + (t % i))
        v = val % i
        if where == "skip":
            mains.append("{ let x = %s; let _ = &*x; println!(\"%d ok\"); }" % (v, i))
        elif where.startswith("*"):
            mains.append("{ let x = %s; println!(\"%d {}\", (&*x as *const _ as *const u8 as usize) == (x.b as *const _ as *const u8 as usize)); }" % (v, i))
        elif where.startswith("B"):
            mains.append("{ let mut x = %s; let p = &*x as *const _ as usize; let q = match &x { G%d::B { x: f, .. } => f as *const _ as usize, _ => 0 }; *x = 9; let w = match &x { G%d::B { x: f, y } => (*f, *y), _ => (0, 0) }; println!(\"%d {} {:?}\", p == q, w); }" % (v, i, i, i))
        else:
            mains.append("{ let x = %s; println!(\"%d {}\", (&*x as *const _ as usize) == (&x.%s as *const _ as usize)); }" % (v, i, where))
    parts.append("fn main() {\n" + "\n".join(mains) + "\n}")
    path = os.path.join(work, "generic_deref.rs")
    open(path, "w").write("\n".join(parts) + "\n")
    rc, diags = common.rustc_compile(path, os.path.join(work, "generic_deref"), so)
    tie["evaluations"] += len(GENERIC_DEREF)
    errs = [d for d in diags if d.get("level") == "error" and d.get("spans")]
    if rc != 0:
        e = errs[0] if errs else {"message": "rustc failed"}
        ln = e["spans"][0]["line_start"] if errs else 0
        src = parts[ln - 1] if 0 < ln <= len(parts) else ""
        tie["failing"].append({"what": "an educed Deref / DerefMut on a generic type does not compile", "rust_source": src,
                               "observed": (e.get("rendered") or e.get("message"))[:600], "expected_spec": "compiles"})
    else:
        p = subprocess.run([os.path.join(work, "generic_deref")], capture_output=True, text=True, timeout=120)
        want = ["0 true", "1 true", "2 true", "3 true (9, 4)", "4 ok", "5 true"]
        got = p.stdout.split("\n")[:-1]
        if got != want:
            k = next((j for j in range(min(len(got), len(want))) if got[j] != want[j]), 0)
            tie["failing"].append({"what": "`&*x` of a generic type is not the designated field", "rust_source": "#[derive(Educe)] " + (GENERIC_DEREF[k][0] % k),
                                   "observed": got[k] if k < len(got) else p.stderr[-300:], "expected_spec": want[k]})
    tie["extra"]["generic_deref_definitions"] = len(GENERIC_DEREF)
    import shutil
    shutil.rmtree(work, ignore_errors=True)


def main(tier):
    t0 = time.time()
    proof = common.proof_obligations("C09", modules=["EduceModel.Props.C09", "EduceModel.Props.E2E", "EduceModel.Props.Profile"])
    n_defs, cap_vals = (250, 3) if tier == "quick" else (3000, 6)
    tie = b1.run_b1("C09", P(), n_defs, cap_vals, common.seed())
    try:
        generic_deref_tie(tie)
    except (common.BuildError, OSError) as e:
        tie["broken"].append("harness: " + str(e)[:300])
    return common.finish("C09", tier, t0, proof, tie)
