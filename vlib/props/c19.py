"""C19 — generated code is insulated from the names at the derive site."""
import json, os, random, re, subprocess, time
from .. import common

KEYWORDS = set("as break const continue crate dyn else enum extern false fn for if impl in let loop match mod move mut pub ref return self Self "
               "static struct super trait true type unsafe use where while async await abstract become box do final macro override priv try "
               "typeof unsized virtual yield union".split())

SUPPORT = r'''
pub type UB = u8;
pub type UZ = usize;
pub trait Bnd: ::core::clone::Clone + ::core::fmt::Debug + ::core::cmp::Ord + ::core::hash::Hash + ::core::default::Default {}
impl Bnd for u8 {}
pub struct Rec { pub buf: [u8; 512], pub len: usize }
impl Rec { pub fn new() -> Rec { Rec { buf: [0; 512], len: 0 } } }
impl ::core::hash::Hasher for Rec {
    fn finish(&self) -> u64 { 0 }
    fn write(&mut self, b: &[u8]) { for x in b { if self.len < 512 { self.buf[self.len] = *x; self.len += 1; } } }
}
pub fn m_eq(a: &u8, b: &u8) -> bool { (*a % 4) == (*b % 4) }
pub fn m_cmp(a: &u8, b: &u8) -> ::core::cmp::Ordering { ::core::cmp::Ord::cmp(&(*a % 4), &(*b % 4)) }
pub fn m_pcmp(a: &u8, b: &u8) -> ::core::option::Option<::core::cmp::Ordering> { ::core::option::Option::Some(m_cmp(a, b)) }
pub fn m_hash<HH: ::core::hash::Hasher>(a: &u8, s: &mut HH) { s.write_u8(*a % 4); s.write_u8(0xAA); }
pub fn m_clone(a: &u8) -> u8 { *a }
pub fn m_dbg(a: &u8, f: &mut ::core::fmt::Formatter<'_>) -> ::core::fmt::Result { f.write_str("<m>")?; ::core::fmt::Debug::fmt(a, f) }
pub static ARR: [u8; 2] = [5, 6];
'''

RUNNER = r'''
#[cfg(runnable)]
pub fn show<X: ::core::fmt::Debug + ::core::clone::Clone + ::core::cmp::Ord + ::core::hash::Hash>(tag: &str, vals: &[X]) {
    for a in vals {
        ::std::println!("{} dbg | {:?}", tag, a);
        ::std::println!("{} pretty | {}", tag, ::std::format!("{:#?}", a).replace("\n", "~"));
        let mut r = Rec::new(); ::core::hash::Hash::hash(a, &mut r);
        ::std::println!("{} hash {:?}", tag, &r.buf[..r.len]);
        let c = ::core::clone::Clone::clone(a);
        ::std::println!("{} cloneeq {}", tag, ::core::cmp::PartialEq::eq(&c, a));
        for b in vals {
            ::std::println!("{} rel {} {:?} {:?}", tag, ::core::cmp::PartialEq::eq(a, b), ::core::cmp::Ord::cmp(a, b), ::core::cmp::PartialOrd::partial_cmp(a, b));
        }
    }
}
'''


def ident_names():
    p = os.path.join(common.LEAN, "EduceModel", "Generated", "Templates.lean")
    m = re.search(r"def identNames : List String := \[(.*?)\]\n", open(p).read(), re.S)
    return re.findall(r'"([^"]+)"', m.group(1)) if m else []


def defs(n, k):
    """the definition families, names as a dict n; k distinguishes attribute choices"""
    TY, TP, CP, LT, f1, f2, f3, V1, V2, V3 = (n[x] for x in ("TY", "TP", "CP", "LT", "f1", "f2", "f3", "V1", "V2", "V3"))
    meth = k % 2 == 1
    a2 = ("#[educe(PartialEq(method(m_eq)), Ord(method(m_cmp)), Hash(method(m_hash)), Clone(method(m_clone)), Debug(method(m_dbg)))] "
          if meth else "")
    rank = "#[educe(Ord(rank = 1))] " if k % 3 == 0 else ""
    out = []
    out.append(("S", f'''#[derive(Educe)] #[educe(Debug, Clone, PartialEq, Eq, PartialOrd, Ord, Hash)]
pub struct {TY}S<'{LT}, {TP}: Bnd, const {CP}: UZ> {{ {rank}pub {f1}: {TP}, {a2}pub {f2}: UB, pub {f3}: &'{LT} [UB; {CP}] }}''',
                f'''{{ let v = [{TY}S::<UB, 2> {{ {f1}: 1, {f2}: 6, {f3}: &ARR }}, {TY}S::<UB, 2> {{ {f1}: 2, {f2}: 2, {f3}: &ARR }}, {TY}S::<UB, 2> {{ {f1}: 1, {f2}: 3, {f3}: &ARR }}]; show("S", &v); }}'''))
    out.append(("E", f'''#[derive(Educe)] #[educe(Debug, Clone, PartialEq, Eq, PartialOrd, Ord, Hash, Default(new))]
pub enum {TY}E<{TP}: Bnd> {{ {V1} {{ {rank}{f1}: {TP}, {a2}{f2}: UB }}, {V2}({TP}, {a2}UB), #[educe(Default)] {V3} }}''',
                f'''{{ let v = [{TY}E::<UB>::{V1} {{ {f1}: 1, {f2}: 6 }}, {TY}E::<UB>::{V1} {{ {f1}: 2, {f2}: 2 }}, {TY}E::<UB>::{V2}(1, 7), {TY}E::<UB>::{V2}(0, 3), {TY}E::<UB>::{V3}, <{TY}E<UB> as ::core::default::Default>::default(), {TY}E::<UB>::new()]; show("E", &v); }}'''))
    out.append(("T", f'''#[derive(Educe)] #[educe(Deref, DerefMut, Into(UB), Debug(name = false), Clone)]
pub struct {TY}T<{TP}: Bnd>(#[educe(Deref, DerefMut)] pub {TP}, #[educe(Into(UB))] pub UB);''',
                f'''{{ let mut x = {TY}T::<UB>(4, 9); *::core::ops::DerefMut::deref_mut(&mut x) += 1; ::std::println!("T deref | {{}} {{:?}}", *::core::ops::Deref::deref(&x), x); let y: UB = ::core::convert::Into::into(x); ::std::println!("T into | {{}}", y); }}'''))
    out.append(("D", f'''#[derive(Educe)] #[educe(Default(new), Debug)]
pub struct {TY}D {{ #[educe(Default = 7)] pub {f1}: UB, pub {f2}: UB }}''',
                f'''{{ ::std::println!("D default | {{:?}} {{:?}}", <{TY}D as ::core::default::Default>::default(), {TY}D::new()); }}'''))
    out.append(("U", f'''#[derive(Educe)] #[educe(Debug(unsafe), PartialEq(unsafe), Eq, Hash(unsafe), Clone, Copy)]
pub union {TY}U {{ pub {f1}: UB, pub {f2}: [UB; 4] }}''',
                f'''{{ let a = {TY}U {{ {f2}: [1, 2, 3, 4] }}; let b = {TY}U {{ {f2}: [1, 2, 3, 5] }}; let mut r = Rec::new(); ::core::hash::Hash::hash(&a, &mut r);
  ::std::println!("U all | {{:?}} {{}} {{}} {{:?}}", a, ::core::cmp::PartialEq::eq(&a, &b), ::core::cmp::PartialEq::eq(&a, &::core::clone::Clone::clone(&a)), &r.buf[..r.len]); }}'''))
    # an enum with Deref / DerefMut / Into: its variants may be called like the associated items the impls name (`Target`)
    out.append(("R", f'''#[derive(Educe)] #[educe(Deref, DerefMut, Into(UB))]
pub enum {TY}R {{ {V1}(UB), {V2} {{ #[educe(Deref, DerefMut, Into(UB))] {f1}: UB, {f2}: UZ }} }}''',
                f'''{{ let mut x = {TY}R::{V1}(4); *::core::ops::DerefMut::deref_mut(&mut x) += 1; ::std::println!("R deref | {{}}", *::core::ops::Deref::deref(&x));
  let y: UB = ::core::convert::Into::into({TY}R::{V2} {{ {f1}: 7, {f2}: 1 }}); ::std::println!("R into | {{}}", y); }}'''))
    # Copy next to Clone on an enum with a custom clone method: the one place where a separate Copy impl with its own predicates is written
    out.append(("P", f'''#[derive(Educe)] #[educe(Clone, Copy)]
pub enum {TY}P<{TP}: Bnd + ::core::marker::Copy> {{ {V1}({TP}, #[educe(Clone(method(m_clone)))] UB), {V2} {{ {f1}: UB }}, {V3} }}''',
                f'''{{ let a = {TY}P::<UB>::{V1}(1, 2); let b = a; let c = ::core::clone::Clone::clone(&a);
  ::std::println!("P clone | {{}}", match (b, c) {{ ({TY}P::{V1}(x, y), {TY}P::{V1}(z, w)) => x + y + z + w, _ => 0 }}); }}'''))
    return out


NEUTRAL = {"TY": "Ty", "TP": "Tp", "CP": "CP", "LT": "lt", "f1": "alpha", "f2": "beta", "f3": "gamma", "V1": "Va", "V2": "Vb", "V3": "Vc"}


def assignments(rng, names, count):
    """hostile name assignments drawn from the identifiers of the templates (regenerated), plus the binder-collision families"""
    lower = [x for x in names if x[0].islower() or x[0] == "_"]
    lower = [x for x in lower if x not in KEYWORDS]
    upper = [x for x in names if x[0].isupper() and x not in KEYWORDS]
    prims = ["bool", "u8", "str", "usize", "isize", "u64", "char"]
    fam = [("x", "_x", "__x"), ("_x", "x", "_s_x"), ("_s_x", "_o_x", "x"), ("_d_x", "_s_x", "__s_x"), ("v_x", "x", "_x"), ("_0", "__0", "_1"),
           ("other", "state", "f"), ("builder", "arg", "size"), ("data", "self_data", "other_data"), ("source", "educe__f", "field"),
           # raw identifiers: a binder built from the field's name as text (`_s_r#type`) is not an identifier
           ("r#type", "r#match", "r#loop"), ("r#fn", "x", "r#ref")]
    out = []
    for i in range(count):
        if i < len(fam):
            f1, f2, f3 = fam[i]
        else:
            f1, f2, f3 = rng.sample(lower, 3)
        tp = rng.choice(upper + prims + ["H", "H_", "V", "M", "Self_"] + lower[:20])
        # lower-case const parameter names are probed separately (known finding: E0530 against generated locals)
        # a const parameter named like a type of the prelude is ambiguous in the user's own `[T; N]`
        cp = rng.choice([x for x in ["H", "N", "H_", "M", "V", "K", "Educe__N", "T"] if x != tp])
        lt = rng.choice([x for x in lower if x not in ("static",)])
        vs = rng.sample(sorted({x for x in upper + ["Some", "None", "Ok", "Err", "Equal", "Less", "Greater"] if x not in (tp, cp)}), 3)
        if i % 5 == 3 and "Target" not in (tp, cp) and "Target" not in vs:
            vs[0] = "Target"          # the associated type of Deref
        ty = rng.choice([x for x in upper if x not in (tp, cp) and x not in vs] + ["Educe__"])
        # the generic names the generated code may pick for itself, in both declaration orders
        pairs = [("H_", "H"), ("H", "H_"), ("H__", "H"), ("H_", "H__"), ("V", "M"), ("M", "V"), ("Educe__DebugField", "Educe__DebugField_"), ("Educe__DebugField_", "Educe__DebugField")]
        if i < len(pairs):
            tp, cp = pairs[i]
        n = {"TY": ty, "TP": tp, "CP": cp, "LT": lt, "f1": f1, "f2": f2, "f3": f3, "V1": vs[0], "V2": vs[1], "V3": vs[2]}
        vals = [n[k] for k in ("TP", "CP")] + [ty + s for s in "SETDURP"]
        if len(set(vals)) != len(vals) or len({f1, f2, f3}) != 3:
            continue
        out.append(n)
    return out


STD_MACROS = ["matches", "assert", "assert_eq", "assert_ne", "debug_assert", "debug_assert_eq", "debug_assert_ne", "panic", "todo", "unimplemented",
              "unreachable", "stringify", "concat", "format_args", "format", "write", "writeln", "vec", "print", "println", "eprintln", "line", "column",
              "file", "module_path", "env", "option_env", "include_str", "cfg", "dbg"]


def shadow_items(names, own):
    """items of the hostile module: every identifier of the templates means something else there"""
    lines = ["#[allow(non_camel_case_types, dead_code)] pub enum Shadow__ { Some, None, Ok, Err, Equal, Less, Greater }",
             "#[allow(unused_imports)] use Shadow__::*;"]
    # the macros of the standard prelude mean something else as well: generated code has to invoke them by absolute path
    for x in STD_MACROS:
        if x not in names:
            lines.append("#[allow(unused_macros)] macro_rules! %s { ($($t:tt)*) => { compile_error!(\"shadowed macro `%s` used\") } }" % (x, x))
    for x in sorted(set(names) | {"Option", "Result", "Ordering", "Clone", "Copy", "Default", "Debug", "PartialEq", "Eq", "PartialOrd", "Ord", "Hash",
                                   "Hasher", "Into", "From", "Deref", "DerefMut", "Formatter", "Box", "Vec", "String", "Sized", "Iterator",
                                   "bool", "u8", "str", "usize", "isize", "u64", "char", "core", "std", "fmt", "cmp", "hash", "mem", "slice", "option", "primitive"}):
        if x in KEYWORDS or x in own or x in ("Some", "None", "Ok", "Err", "Equal", "Less", "Greater", "Self"):
            continue
        if x in ("core", "std"):
            lines.append("#[allow(dead_code)] pub mod %s {}" % x)
        elif x[0].isupper() or x in ("bool", "u8", "str", "usize", "isize", "u64", "char"):
            lines.append("#[allow(non_camel_case_types, dead_code)] pub struct %s;" % x)
        else:
            lines.append("#[allow(dead_code, non_snake_case)] pub fn %s() {}" % x)
            lines.append("#[allow(unused_macros)] macro_rules! %s { ($($t:tt)*) => { compile_error!(\"shadowed macro `%s` used\") } }" % (x, x))
    return "\n".join(lines)


def build_crate(path, mods, runnable):
    with open(path, "w") as f:
        f.write("#![allow(warnings)]\n" + ("" if runnable else "#![no_std]\n"))
        f.write(SUPPORT)
        if runnable:
            f.write(RUNNER)
        for name, body in mods:
            f.write("pub mod %s {\n#![allow(warnings)]\nuse super::*;\n%s\n}\n" % (name, body))
        if runnable:
            f.write("fn main() {\n" + "".join('    ::std::println!("## %s"); %s::run();\n' % (n, n) for n, _ in mods) + "}\n")


DECOY_METHODS = """
    pub fn cmp(&self, _o: &Self) -> ::core::cmp::Ordering { ::core::cmp::Ordering::Equal }
    pub fn partial_cmp(&self, _o: &Self) -> ::core::option::Option<::core::cmp::Ordering> { ::core::option::Option::None }
    pub fn eq(&self, _o: &Self) -> ::core::primitive::bool { false }
    pub fn ne(&self, _o: &Self) -> ::core::primitive::bool { false }
    pub fn lt(&self, _o: &Self) -> ::core::primitive::bool { false }
    pub fn le(&self, _o: &Self) -> ::core::primitive::bool { false }
    pub fn gt(&self, _o: &Self) -> ::core::primitive::bool { false }
    pub fn ge(&self, _o: &Self) -> ::core::primitive::bool { false }
    pub fn clone(&self) -> Self { ::std::process::exit(86) }
    pub fn clone_from(&mut self, _o: &Self) { ::std::process::exit(86) }
    pub fn hash<HH: ::core::hash::Hasher>(&self, s: &mut HH) { s.write_u8(0xEE) }
    pub fn fmt(&self, f: &mut ::core::fmt::Formatter<'_>) -> ::core::fmt::Result { f.write_str("<decoy>") }
    pub fn default() -> Self { ::std::process::exit(86) }
    pub fn deref(&self) -> &::core::primitive::u8 { &ARR[0] }
    pub fn deref_mut(&mut self) -> &mut ::core::primitive::u8 { ::std::process::exit(86) }
    pub fn into(self) -> ::core::primitive::u8 { 0xEE }
    pub fn from(_x: Self) -> ::core::primitive::u8 { 0xEE }
    pub fn assert_receiver_is_total_eq(&self) { ::std::process::exit(86) }
"""


def decoys(n):
    """inherent methods of the user's types called like the trait methods the derive implements: generated code that
    wrote `self.cmp(other)` instead of `::core::cmp::Ord::cmp(self, other)` would reach these"""
    TY, TP, CP, LT = n["TY"], n["TP"], n["CP"], n["LT"]
    heads = ["impl<'%s, %s: Bnd, const %s: UZ> %sS<'%s, %s, %s>" % (LT, TP, CP, TY, LT, TP, CP), "impl<%s: Bnd> %sE<%s>" % (TP, TY, TP),
             "impl<%s: Bnd> %sT<%s>" % (TP, TY, TP), "impl %sD" % TY, "impl %sU" % TY, "impl %sR" % TY, "impl<%s: Bnd + ::core::marker::Copy> %sP<%s>" % (TP, TY, TP)]
    return "\n".join("#[cfg(runnable)] #[allow(dead_code)] %s {%s}" % (h, DECOY_METHODS) for h in heads)


def macroize(src, idents, tag):
    """the same item as the output of a macro_rules! macro: every occurrence of one of `idents` (field, variant, method
    and type-alias names) becomes an `$x:ident` fragment supplied by the caller, so that those tokens carry the hygiene
    context of the invocation while `#[derive(Educe)]` and the rest come from the macro body"""
    order = []

    def sub(m):
        w = m.group(0)
        if w not in idents:
            return w
        if w not in order:
            order.append(w)
        return "$x%d" % order.index(w)
    body = re.sub(r"(?<![\w'#$])(?:r#)?[A-Za-z_]\w*", sub, src)
    if not order:
        return src
    return "macro_rules! mk_%s { (%s) => {\n%s\n} }\nmk_%s!(%s);" % (tag, ", ".join("$x%d:ident" % i for i in range(len(order))), body, tag, ", ".join(order))


def module_body(n, k, hostile, names, runnable=True):
    ds = defs(n, k)
    own = set(n.values()) | {n["TY"] + s for s in "SETDURP"}
    parts = []
    if hostile:
        parts.append(shadow_items(names, own | {"UB", "UZ", "Bnd", "Rec", "ARR", "show", "m_eq", "m_cmp", "m_pcmp", "m_hash", "m_clone", "m_dbg", "run", "Educe"}))
    parts.append("use educe::Educe;")
    for tag, src, _ in ds:
        if hostile and k % 3 == 2:
            # (keywords cannot be `ident` fragments; the lifetime and the generic parameters stay in the body)
            idents = {n[x] for x in ("f1", "f2", "f3", "V1", "V2", "V3")} | {"m_eq", "m_cmp", "m_hash", "m_clone", "m_dbg", "UB"}
            src = macroize(src, idents - KEYWORDS - {n["TP"], n["CP"], n["LT"]}, "%s%s_%d" % (n["TY"], tag, k))
        parts.append(src)
    if hostile and runnable:
        parts.append(decoys(n))
    if runnable:
        parts.append("#[cfg(runnable)] pub fn run() {\n" + "\n".join(r for _, _, r in ds) + "\n}")
    return "\n".join(parts)


def rename(line, n):
    if " | " not in line:
        return line                      # no user names in these lines (Ordering / bool / bytes only)
    head, line = line.split(" | ", 1)
    head += " | "
    back = {}
    for k, v in n.items():
        if k in ("TP", "CP", "LT"):
            continue
        back[v] = NEUTRAL[k]
    for s in "SETDURP":
        back[n["TY"] + s] = NEUTRAL["TY"] + s
    return head + re.sub(r"(?:r#)?[A-Za-z_][A-Za-z0-9_]*", lambda m: back.get(m.group(0), back.get("r#" + m.group(0), m.group(0))), line)


def compile_(src, out, so, extra):
    cmd = ["rustc", "--edition", "2021", "--error-format=json", "-C", "debuginfo=0", "-C", "opt-level=0", "--extern", "educe=" + so, src] + extra + ["-o", out]
    p = subprocess.run(cmd, capture_output=True, text=True, timeout=1800)
    errs = []
    import json
    for l in p.stderr.splitlines():
        try:
            d = json.loads(l)
        except ValueError:
            continue
        if d.get("level") == "error" and d.get("spans"):
            errs.append((d["spans"][0].get("line_start", 0), (d.get("code") or {}).get("code", ""), d["message"]))
    return p.returncode, errs


# user *types* (not generic parameters) called like the names the generated code picks for its own generic parameters and
# helper structs: the generated items must not bring them into a scope where the user's field types are named
TYPE_NAME_PROBE = r"""
pub mod zz_type_names {
    use super::*;
    use educe::Educe;
    #[derive(Debug, Clone, PartialEq, Eq, PartialOrd, Ord, Hash, Default)] pub struct H(pub u8);
    #[derive(Debug, Clone, PartialEq, Eq, PartialOrd, Ord, Hash, Default)] pub struct H_(pub u8);
    #[derive(Debug, Clone, PartialEq, Eq, PartialOrd, Ord, Hash, Default)] pub struct Educe__DebugField(pub u8);
    #[derive(Debug, Clone, PartialEq, Eq, PartialOrd, Ord, Hash, Default)] pub struct V(pub u8);
    #[derive(Debug, Clone, PartialEq, Eq, PartialOrd, Ord, Hash, Default)] pub struct M(pub u8);
    #[derive(Educe)] #[educe(Debug, Clone, PartialEq, Eq, PartialOrd, Ord, Hash, Default)]
    pub struct Hsv { pub h: H, pub s: H_, pub v: V, pub m: M, pub e: Educe__DebugField, #[educe(Debug(method(m_dbg)), Hash(method(m_hash)))] pub u: UB }
    #[derive(Educe)] #[educe(Hash, Debug, Clone, PartialEq)]
    pub struct G<H: Bnd> { pub a: H, pub b: H_, pub c: Educe__DebugField, #[educe(Debug(method(m_dbg)))] pub u: UB }
    #[derive(Educe)] #[educe(Hash, Debug, Clone, PartialEq, Eq, PartialOrd, Ord)]
    pub enum En { A(H, H_), B { x: Educe__DebugField, v: V, m: M, #[educe(Debug(method(m_dbg)))] y: UB } }
    pub fn run() {
        let a = Hsv { h: H(1), s: H_(2), v: V(3), m: M(4), e: Educe__DebugField(5), u: 6 };
        let mut r = Rec::new(); ::core::hash::Hash::hash(&a, &mut r);
        ::std::println!("{:?} {:?}", a, &r.buf[..r.len]);
        let g = G::<UB> { a: 1, b: H_(2), c: Educe__DebugField(3), u: 4 };
        let mut r = Rec::new(); ::core::hash::Hash::hash(&g, &mut r);
        ::std::println!("{:?} {:?}", g, &r.buf[..r.len]);
        let e = [En::A(H(1), H_(2)), En::B { x: Educe__DebugField(1), v: V(2), m: M(3), y: 4 }];
        for x in e.iter() { let mut r = Rec::new(); ::core::hash::Hash::hash(x, &mut r); ::std::println!("{:?} {:?} {:?}", x, &r.buf[..r.len], ::core::cmp::Ord::cmp(x, &e[0])); }
    }
}
"""
TYPE_NAME_EXPECTED = [
    "Hsv { h: H(1), s: H_(2), v: V(3), m: M(4), e: Educe__DebugField(5), u: <m>6 } [1, 2, 3, 4, 5, 2, 170]",
    "G { a: 1, b: H_(2), c: Educe__DebugField(3), u: <m>4 } [1, 2, 3, 4]",
]


def type_name_probe(tie, so, work):
    src = os.path.join(work, "type_names.rs")
    with open(src, "w") as f:
        f.write("#![allow(warnings)]\n" + SUPPORT + TYPE_NAME_PROBE + "fn main() { zz_type_names::run(); }\n")
    rc, errs = compile_(src, os.path.join(work, "type_names"), so, [])
    tie["evaluations"] += 3
    if rc != 0:
        tie["failing"].append({"what": "the derive does not compile when the user's field types are called like the generic parameters / helper structs the generated code picks (H, H_, V, M, Educe__DebugField)",
                               "rust_source": TYPE_NAME_PROBE, "observed": "; ".join("%s %s" % (c, m[:160]) for _, c, m in errs[:3]), "expected_spec": "compiles", "replay_program": src})
        return
    p = subprocess.run([os.path.join(work, "type_names")], capture_output=True, text=True, timeout=60)
    got = p.stdout.splitlines()
    if p.returncode != 0 or got[:2] != TYPE_NAME_EXPECTED:
        tie["failing"].append({"what": "the derive behaves differently when the user's field types are called like generated generic parameters",
                               "rust_source": TYPE_NAME_PROBE, "observed": got[:2] or p.stderr[-300:], "expected_spec": TYPE_NAME_EXPECTED})


def picked_names_tie(tie, rng, n):
    """The names the generated code picks for itself (`hasher_ident`, `debug_field_ident`) against the model's `pickName`
    (Names.lean; `pickName_fresh`, `pickName_first`): definitions whose own name and generic parameters are drawn from the
    candidate names, expanded in-process; the hasher parameter and the wrapper struct are read off the real tokens."""
    from .. import attr
    cases, meta = picked_name_defs(rng, n)
    return _picked_names_compare(tie, cases, meta)


def picked_name_defs(rng, n, start=0):
    """definitions (Debug with a custom method + Hash) whose own name and generic parameters are drawn from the names the
    generated code would like to use itself; returns ([(id, source)], {id: (type name, generic names in order)})"""
    NAMES = ["H", "H_", "H__", "H___", "T", "Educe__DebugField", "Educe__DebugField_", "Educe__DebugField__", "U"]
    cases, meta = [], {}
    for i in range(start, start + n):
        ident = rng.choice(["S%d" % i, "S%d" % i, "Educe__DebugField", "Educe__DebugField_", "H", "H_"])
        gens = rng.sample([x for x in NAMES if x != ident], rng.randint(0, 5))
        params, fields = [], ["#[educe(Debug(method(m)), Hash(method(hm)))] pub x: u8"]
        for k, g in enumerate(gens):
            if rng.random() < 0.3:
                params.append("const %s: usize" % g)
                fields.append("pub f%d: [u8; %s]" % (k, g))
            else:
                params.append(g)
                fields.append("pub f%d: %s" % (k, g))
        if rng.random() < 0.25:
            params.insert(0, "'a")
            fields.append("pub r: &'a u8")
        if rng.random() < 0.3:
            # type parameters before const parameters is not required any more; any order is legal
            lt = [p for p in params if p.startswith("'")]
            rest = [p for p in params if not p.startswith("'")]
            rng.shuffle(rest)
            params = lt + rest
            gens = [p.replace("const ", "").replace(": usize", "") for p in rest]
        g = "<%s>" % ", ".join(params) if params else ""
        kind = rng.choice(["struct", "enum"])
        body = "{ %s }" % ", ".join(fields) if kind == "struct" else "{ A { %s }, B }" % ", ".join(f.replace("pub ", "") for f in fields)
        src = "#[derive(Educe)]\n#[educe(Debug, Hash)]\npub %s %s%s %s" % (kind, ident, g, body)
        cases.append((i, src))
        meta[i] = (ident, gens)
    return cases, meta


def _picked_names_compare(tie, cases, meta):
    from .. import attr
    try:
        real = attr.expand_real(cases)
        lines = []
        for i, _ in cases:
            ident, gens = meta[i]
            lines.append(json.dumps(["pickname", "hasher", ident, gens]))
            lines.append(json.dumps(["pickname", "debugfield", ident, gens]))
        out = [l for l in common.run_driver(lines) if l and l[0] == "pickname"]
    except (common.BuildError, RuntimeError) as e:
        tie["broken"].append("picked names: " + str(e)[:300])
        return
    if len(out) != 2 * len(cases):
        tie["broken"].append("picked names: the driver answered %d of %d requests" % (len(out), 2 * len(cases)))
        return
    moved = 0
    for k, (i, src) in enumerate(cases):
        r = real[i]
        ident, gens = meta[i]
        tie["evaluations"] += 2
        if r.get("outcome") != "ok":
            tie["failing"].append({"what": "a definition whose names coincide with names the generated code uses is refused", "rust_source": src,
                                   "observed": str(r.get("message"))[:300], "expected_spec": "accepted"})
            continue
        toks = r.get("tokens") or ""
        mh = re.search(r"fn hash < (\w+) :", toks)
        md = re.search(r"struct (Educe__DebugField_*)\b", toks)
        got = {"hasher": mh.group(1) if mh else None, "debugfield": md.group(1) if md else None}
        for j, what in enumerate(("hasher", "debugfield")):
            want = out[2 * k + j][-1]
            g = got[what]
            if g == want:
                moved += g not in ("H", "Educe__DebugField")
                continue
            taken = set(gens) | ({ident} if what == "debugfield" else set())
            item = {"what": "the generated code picks another name for its own %s than the model (`pickName`)" % ("Hasher parameter" if what == "hasher" else "Debug wrapper struct"),
                    "rust_source": src, "observed": g, "expected_spec": want}
            if g is None:
                tie["broken"].append("picked names: no %s name found in the expansion" % what)
                tie["broken_details"].append(item)
            elif g in taken:
                item["what"] = "the generated code picks a name that the type already uses (%s)" % what
                tie["failing"].append(item)
            else:
                tie["broken"].append("picked names: implementation `%s`, model `%s`" % (g, want))
                tie["broken_details"].append(item)
    tie["extra"]["picked_name_cases"] = len(cases)
    tie["extra"]["picked_names_beyond_the_first_candidate"] = moved


def main(tier):
    t0 = time.time()
    proof = common.proof_obligations("C19")
    rng = random.Random(common.seed())
    tie = {"evaluations": 0, "distinct_nontrivial": 0, "failing": [], "broken": [], "broken_details": [], "known": [], "samples": [], "extra": {}}
    try:
        so = common.build_proc_macro()
    except common.BuildError as e:
        tie["broken"].append("harness: " + str(e)[:300])
        return common.finish("C19", tier, t0, proof, tie)
    names = ident_names()
    if len(names) < 20:
        tie["broken"].append("translator: identifier inventory of the templates is missing")
        return common.finish("C19", tier, t0, proof, tie)
    work = common.scratch("C19")
    count = 40 if tier == "quick" else 400
    assigns = assignments(rng, names, count)
    neutral_mods, hostile_mods = [], []
    for i, n in enumerate(assigns):
        neutral_mods.append(("m%d" % i, module_body(NEUTRAL, i, False, names)))
        hostile_mods.append(("m%d" % i, module_body(n, i, True, names)))
    results = {}
    for tag, mods in (("neutral", neutral_mods), ("hostile", hostile_mods)):
        src = os.path.join(work, tag + ".rs")
        build_crate(src, mods, True)
        rc, errs = compile_(src, os.path.join(work, tag), so, ["--cfg", "runnable"])
        if rc != 0:
            # attribute the first errors to modules by line
            text = open(src).read().split("\n")
            starts = [(ln + 1, m.group(1)) for ln, l in enumerate(text) for m in [re.match(r"pub mod (m\d+) \{", l)] if m]
            seen = set()
            for line, code, msg in errs:
                mod = None
                for s, name in starts:
                    if s <= line:
                        mod = name
                if mod is None or mod in seen:
                    continue
                seen.add(mod)
                i = int(mod[1:])
                item = {"what": "the derive does not compile in the %s naming context" % tag, "names": assigns[i] if tag == "hostile" else NEUTRAL,
                        "rust_source": "\n".join(s for _, s, _ in defs(assigns[i] if tag == "hostile" else NEUTRAL, i)),
                        "observed": "%s %s (line %d: %s)" % (code, msg[:300], line, text[line - 1].strip()[:200]),
                        "expected_spec": "compiles and behaves as with neutral names", "replay_program": src}
                if tag == "neutral":
                    tie["broken"].append("harness: the neutral program does not compile: " + msg[:200])
                    tie["broken_details"].append(item)
                else:
                    tie["failing"].append(item)
            if not errs:
                tie["broken"].append("harness: rustc failed on the %s program without a located error" % tag)
            results[tag] = None
            continue
        p = subprocess.run([os.path.join(work, tag)], capture_output=True, text=True, timeout=600)
        if p.returncode != 0:
            tie["failing" if tag == "hostile" else "broken"].append(
                {"what": "the %s program aborts" % tag, "observed": p.stderr[-400:]} if tag == "hostile" else "harness: the neutral program aborts: " + p.stderr[-200:])
            results[tag] = None
            continue
        blocks, cur = {}, None
        for l in p.stdout.splitlines():
            if l.startswith("## "):
                cur = l[3:]
                blocks[cur] = []
            elif cur:
                blocks[cur].append(l)
        results[tag] = blocks
    if results.get("neutral") and results.get("hostile"):
        for i, n in enumerate(assigns):
            a, b = results["neutral"].get("m%d" % i, []), results["hostile"].get("m%d" % i, [])
            tie["evaluations"] += len(a)
            b2 = [rename(l, n) for l in b]
            if a != b2:
                k = next((j for j in range(min(len(a), len(b2))) if a[j] != b2[j]), min(len(a), len(b2)))
                tie["failing"].append({"what": "the same derive behaves differently when the user's names coincide with generated identifiers",
                                       "names": n, "rust_source": "\n".join(s for _, s, _ in defs(n, i)),
                                       "observed": (b[k] if k < len(b) else "<missing>")[:400], "expected_spec": (a[k] if k < len(a) else "<missing>")[:400]})
            else:
                tie["distinct_nontrivial"] += 1
    picked_names_tie(tie, rng, 150 if tier == "quick" else 1500)
    type_name_probe(tie, so, work)
    # const parameters named like a generated local or parameter (known finding on the pinned tree)
    rc_b, out_b, _ = common.run(["lake", "env", "lean", "scripts/Binders.lean"], cwd=common.LEAN, timeout=600)
    locals_ = [x for x in out_b.split() if (x[0].islower() or x[0] == "_") and x not in KEYWORDS] if rc_b == 0 else []
    if not locals_:
        tie["broken"].append("translator: the binder inventory of the templates is empty")
    known = [k for k in common.known_findings() if k.get("status") == "open" and k.get("property") == "C19"
             and k.get("matcher", {}).get("kind") == "const-param-shadows-local"]
    known_hits = []
    for nm in locals_:
        n = dict(NEUTRAL, CP=nm)
        src = os.path.join(work, "cp_%s.rs" % nm)
        build_crate(src, [("m0", module_body(n, 1, False, names))], True)
        rc, errs = compile_(src, os.path.join(work, "cp_%s" % nm), so, ["--cfg", "runnable"])
        tie["evaluations"] += 1
        if rc == 0:
            continue
        codes = sorted({c for _, c, _ in errs})
        item = {"what": "a const parameter called `%s` collides with an identifier of the generated code" % nm, "names": n,
                "rust_source": defs(n, 1)[0][1], "observed": "%s: %s" % (",".join(codes), errs[0][2][:200] if errs else "?"),
                "expected_spec": "compiles", "replay_program": src}
        if known:
            known_hits.append("%s (%s)" % (nm, "/".join(codes)))
        else:
            tie["failing"].append(item)
    if known_hits:
        tie["known"].append("a const parameter named like a local or parameter of the generated code does not compile: " + ", ".join(known_hits))
    # no_std: the same definitions in a #![no_std] library
    src = os.path.join(work, "nostd.rs")
    build_crate(src, [("m%d" % i, module_body(n, i, False, names, runnable=False)) for i, n in enumerate(assigns[:20])], False)
    rc, errs = compile_(src, os.path.join(work, "nostd.rmeta"), so, ["--crate-type", "lib", "--emit=metadata"])
    tie["evaluations"] += 1
    if rc != 0:
        tie["failing"].append({"what": "the derive does not compile in a #![no_std] crate", "observed": [e[2][:200] for e in errs[:3]],
                               "expected_spec": "compiles (only ::core paths)", "replay_program": src})
    tie["failing"] = tie["failing"][:4]
    tie["broken"] = tie["broken"][:4]
    tie["extra"]["assignments"] = len(assigns)
    tie["extra"]["identifier_inventory"] = len(names)
    tie["rule"] = ("%d name assignments for seven definition families (generic struct with lifetime/type/const parameters, enum with named/tuple/unit "
                   "variants + Default, tuple struct with Deref/DerefMut/Into, Default(new) struct, union, enum with Deref/DerefMut/Into whose first variant is now and then called `Target`, Copy + Clone enum with a custom clone method); the macros of the standard prelude (matches!, assert!, write!, ...) are shadowed as well, all traits, with and without method/rank "
                   "attributes: field, variant, type, type-/const-parameter and lifetime names drawn from the identifier inventory of the regenerated "
                   "templates, the primitive type names and the binder-collision families (x/_x/__x/_s_x/_o_x/_d_x/v_x/_0/__0); each compiled inside a "
                   "module where every identifier of the templates, the prelude names (Option, Some, None, Result, Ok, Err, Ordering, Clone, Default, "
                   "Debug, …), the primitive types, `core`/`std` and every lowercase template identifier as fn and macro_rules! mean something else; "
                   "results (==, cmp, partial_cmp, hash feed, {:?}, {:#?}, clone, default, deref, into) compared with the same definitions under neutral "
                   "names in a plain module; in the hostile module every type also has inherent methods called like the trait methods (cmp, partial_cmp, "
                   "eq, ne, clone, clone_from, hash, fmt, default, deref, deref_mut, into, ...) with other results, and every third assignment is the "
                   "output of a macro_rules! macro whose `$x:ident` fragments are the field, variant and method names (another hygiene context than "
                   "the `#[derive(Educe)]` in the macro body); the first 20 also compiled in a #![no_std] library; %d definitions whose own name and "
                   "generic parameters are drawn from H, H_, H__, Educe__DebugField, Educe__DebugField_, ... expanded in-process, the hasher "
                   "parameter and the Debug wrapper struct read off the real tokens and compared with the model's pickName (Names.lean). "
                   "distinct_nontrivial = assignments that compile and agree"
                   % (len(assigns), tie["extra"].get("picked_name_cases", 0)))
    tie["samples"] = assigns[:3]
    if not tie["failing"] and not tie["broken"]:
        import shutil
        shutil.rmtree(work, ignore_errors=True)
    return common.finish("C19", tier, t0, proof, tie)
