"""C11 — automatic bounds are exactly those the generated code needs.
   C12 — explicit bound modes and the type's own generics are honoured verbatim.
   (one generator and one comparison; each property selects its bound modes)"""
import collections, random, time
from .. import common, attr, generics


def run(prop, tier, modes):
    t0 = time.time()
    proof = common.proof_obligations(prop)
    rng = random.Random(common.seed())
    tie = {"evaluations": 0, "distinct_nontrivial": 0, "failing": [], "broken": [], "broken_details": [], "known": [], "samples": [], "extra": {}}
    n = 1200 if tier == "quick" else 20000
    cases, metas = [], {}
    tries = 0
    while len(cases) < n and tries < n * 6:
        tries += 1
        src, meta = generics.make(rng, len(cases))
        if meta["mode"] in modes:
            metas[len(cases)] = meta
            cases.append((len(cases), src))
    # the behavioural generators' definitions too (non-generic: headers must still be exact)
    pool = attr.valid_pool(rng, 150 if tier == "quick" else 1500, start_id=100000)
    cases += [(i, s) for i, s, _ in pool]
    try:
        real = attr.expand_real(cases)
        model = attr.expand_model(real)
    except (common.BuildError, RuntimeError) as e:
        tie["broken"].append("B2: " + str(e)[:500])
        return common.finish(prop, tier, t0, proof, tie)
    hist = collections.Counter()
    for i, s in cases:
        r = real[i]
        tie["evaluations"] += 1
        m = model.get(i)
        if i in metas:
            hist["%s/%s" % (metas[i]["trait"], metas[i]["mode"])] += 1
        if r["outcome"] != "ok":
            if i in metas:
                tie["failing"].append({"what": "a documented generic definition / bound spelling is refused", "rust_source": s,
                                       "observed": r.get("message", r["outcome"])[:300], "expected_spec": "accepted"})
            continue
        if m is None or m[0] != "ok":
            tie["broken"].append("B2: model does not accept what the implementation accepts: %s" % (m[0] if m else "no result"))
            tie["broken_details"].append({"rust_source": s})
            continue
        # the property: the header is the type's generics + its where-clause + exactly the required predicates
        hb = attr.header_check(r)
        ri = attr.real_items(r)
        mi = [(it["trait"], it["preds"]) for it in m[1]]
        diffs = list(hb)
        if [x[0] for x in ri] != [x[0] for x in mi]:
            tie["broken"].append("B2: impl items differ: implementation %s, model %s" % ([x[0] for x in ri], [x[0] for x in mi]))
            tie["broken_details"].append({"rust_source": s})
            continue
        order_only = False
        for (nm, rp), (_, mp) in zip(ri, mi):
            if rp != mp:
                if sorted(rp) == sorted(mp):
                    order_only = True
                else:
                    diffs.append("impl %s: appended where-predicates are %s, required %s" % (nm, rp, mp))
        if diffs:
            tie["failing"].append({"what": "a generated impl header differs from the required one", "rust_source": s,
                                   "observed": diffs[:4], "expected_spec": [{"impl": nm, "appended_predicates": mp} for nm, mp in mi]})
        elif order_only:
            tie["broken"].append("B2: same predicates in a different order than the model's")
            tie["broken_details"].append({"rust_source": s})
        if i in metas and any(x[1] for x in mi):
            tie["distinct_nontrivial"] += 1
    tie["failing"] = tie["failing"][:3]
    tie["broken"] = tie["broken"][:3]
    tie["extra"]["trait_mode_histogram"] = dict(hist)
    tie["extra"]["types_named_like_a_segment_of_a_field_type"] = sum(m.get("self_named", 0) for m in metas.values())
    tie["rule"] = ("generic definitions (0-2 lifetimes with outlives bounds, 1-3 type parameters with inline bounds and defaults, 0-2 const "
                   "parameters with default, 0-2 where-predicates; field types T, Option<T>, Vec<T>, PhantomData<T>, [T; N], (T, u8), &'a T, Box<T>; now and then the type itself is called `PhantomData`, "
                   "like a segment of its field type) x "
                   "every trait incl. coupled pairs and Into x per-field ignore / method / expression choices x bound modes %s in every spelling; "
                   "expanded in-process; every real impl header (impl generics, self type, user where-clause as prefix, appended predicates) "
                   "compared with the required one. distinct_nontrivial = generic definitions with at least one appended predicate" % sorted(modes))
    tie["samples"] = [{"rust_source": s, "headers": attr.real_items(real[i]) if real[i]["outcome"] == "ok" else None} for i, s in cases[:3]]
    return common.finish(prop, tier, t0, proof, tie)


def main(tier):
    return run("C11", tier, {"auto", "autotrue"})
