"""C17 — the macro is total: it never panics, aborts or hangs."""
import json, os, random, re, subprocess, time
from .. import common, attr

TOKEN = re.compile(r'"(?:[^"\\]|\\.)*"|b\'[^\']*\'|\'[^\']\'|[A-Za-z_][A-Za-z0-9_]*|[0-9][0-9A-Za-z_.]*|::|->|=>|[^\sA-Za-z0-9_]')
REPLACEMENTS = ["_Nothing", '"rang_très_élevé"', '"aéééééééééééééééé"', '"aaéééééééééééééééé"', "&(u8)", "(u8)", "&'static (dyn Fn(u32) -> u32 + Sync)",
                "&&(u8)", "fn(u8) -> u8", "[(u8); 2]", "unsafe", "*", "-1", "99999999999999999999", '"é"', "a::b", "()", "true", "false", '""', "1.5", "'c'", "b\"x\"",
                "r#type", "Self", "self", "_", "name", "ignore", "method", "bound", "rank", "expression", "new", "named_field",
                "Debug", "Into", "u8", "&'static str", ",", "=", "(", ")", "[", "]", "{", "}", "#", "!", "?", "'a", "12_u8", "0x10",
                # string literals whose content is not a plain identifier / path / integer
                '"r#type"', '" x "', '"type"', '"1abc"', '"a-b"', '"x y"', '"::"', '"\\n"', '"r#"', '"_"', '"self"', '"-"', '"+1"', '" 1"', '"0x10"', '"1_000"']

ADVERSARIAL_ATTRS = [
    "#[educe]", '#[educe = "x"]', "#[educe()]", "#[educe(,)]", "#[educe(Debug())]", "#[educe(Hash())]", "#[educe(Hash[])]",
    "#[educe(Hash{})]", "#[educe(PartialEq[])]", "#[educe(PartialEq{})]", "#[educe(PartialEq())]", "#[educe(Debug[])]",
    "#[educe(Debug{})]", "#[educe(a::Debug)]", "#[educe(::Debug)]", "#[educe(Into())]", "#[educe(Into)]", "#[educe(Into = u8)]",
    "#[educe(Into(u8, method))]", "#[educe(Into(u8, bound))]", "#[educe(Into(, u8))]", "#[educe(Default(expression))]",
    "#[educe(Default(expression = ))]", "#[educe(Default(new = 3))]", "#[educe(Ord(rank = 99999999999999999999))]",
    '#[educe(Ord(rank = "99999999999999999999"))]', "#[educe(Ord(rank = -99999999999999999999))]", "#[educe(Ord(rank))]",
    "#[educe(Ord(rank()))]", "#[educe(Debug(name))]", "#[educe(Debug(name()))]", '#[educe(Debug(name = "é"))]',
    '#[educe(Debug(name = "a b"))]', "#[educe(Debug(name = 3))]", "#[educe(Debug(unsafe))]", "#[educe(Debug(unsafe, unsafe))]",
    "#[educe(Debug(name = X, unsafe))]", "#[educe(PartialEq(unsafe,))]", "#[educe(Hash(unsafe, bound(*)))]",
    "#[educe(Debug(bound()))]", "#[educe(Debug(bound(*, T: Clone)))]", '#[educe(Debug(bound = "T:"))]', "#[educe(Debug(bound = 3))]",
    "#[educe(Clone(bound(T: Clone,)))]", "#[educe(Deref())]", "#[educe(Deref = true)]", "#[educe(DerefMut(x))]", "#[educe(Copy(x))]",
    "#[educe(Eq = 1)]", "#[educe(Debug, Debug)]", "#[educe(Debug)] #[educe(Debug)]", "#[educe(Nope)]", "#[educe(debug)]",
    "#[educe(Debug(named_field))]", "#[educe(Debug(named_field = 1))]", "#[educe(Debug = false)]", '#[educe(Debug = "")]',
    '#[educe(Ord(rank = "rang_très_élevé"))]', '#[educe(Ord(rank("ééééééééééééééééé")))]', '#[educe(Debug(name = "ééééééééééééééééé"))]',
    '#[educe(Debug(name("aéééééééééééééééé")))]', '#[educe(Hash(method = "ééé::ééééééééééé::é"))]', '#[educe(Default(expression = "ééééééééééééééééé"))]',
    '#[educe(Clone(bound = "ééééééééé: éééééééééé"))]', '#[educe(Debug(name("r#type")))]', '#[educe(Debug(rename("r#type")))]', '#[educe(Debug(name(" x ")))]',
    '#[educe(Debug(name("type")))]', '#[educe(Debug = "r#type")]', '#[educe(Debug(name = " padded "))]', '#[educe(Debug(rename = "1abc"))]', '#[educe(Debug(name("")))]',
    '#[educe(Ord(rank(" 1")))]', '#[educe(Ord(rank = "+1"))]', '#[educe(Ord(rank("0x10")))]', '#[educe(Hash(method("r#fn::x")))]', '#[educe(Hash(method = " m "))]', "#[educe(Debug(name(1 foo)))]", "#[educe(Debug(name(true false)))]", "#[educe(Default(expr(1, 2)))]", "#[educe(Hash(method(1)))]",
]


def source_names():
    """Names the crate's own source gives to enum variants, consts and statics (`Trait::_Nothing`, `Bound::Auto`, ...): a lookup
    by name that was meant for the documented trait names may accept one of these as well."""
    names = set()
    for root, _, files in os.walk(os.path.join(common.REPO, "src")):
        for f in files:
            if not f.endswith(".rs"):
                continue
            text = open(os.path.join(root, f)).read()
            for m in re.finditer(r"\benum\s+\w+[^{;]*\{((?:[^{}]|\{[^{}]*\})*)\}", text):
                body = re.sub(r"#\[[^\]]*\]|//[^\n]*", " ", m.group(1))
                for v in re.finditer(r"(?:^|,)\s*([A-Za-z_]\w*)", body):
                    names.add(v.group(1))
            names.update(re.findall(r"\b(?:const|static)\s+([A-Z_][A-Z0-9_]*)\s*:", text))
    return sorted(names)


def source_name_attrs():
    known = {"Debug", "Clone", "Copy", "PartialEq", "Eq", "PartialOrd", "Ord", "Hash", "Default", "Deref", "DerefMut", "Into"}
    out = []
    for n in source_names():
        if n in known:
            continue
        out += ["#[educe(%s)]" % n, "#[educe(Debug, %s)]" % n, "#[educe(%s(x))]" % n, "#[educe(%s = 1)]" % n]
    return out


ODD_TYPES = ["&'static (dyn ::core::fmt::Debug + Send)", "&'static (dyn ::core::fmt::Debug + Send + 'static)", "Box<(dyn Fn(u8) -> u8 + Send)>",
             "(u8)", "&'static (u8)", "&'static &'static (u8)", "&'static (dyn Fn(u32) -> u32 + Sync)", "fn(u8) -> u8", "[(u8); 2]",
             "((u8),)", "*const (u8)", "&'static [(u8)]", "Option<&'static (u8)>"]
ITEMS = [
    "struct S;", "struct S();", "struct S {}", "struct S(u8);", "struct S { a: u8, b: &'static &'static &'static u8 }",
    "enum E {}", "enum E { A }", "enum E { A, B(u8), C { x: u8 } }", "enum E { A = 1 + 1, B }", "#[repr()] enum E { A }",
    "#[repr(u8, align(2))] enum E { A(u8) }", "union U { a: u8 }", "union U { a: u8, b: [u8; 1] }", "struct G<'a, T: ?Sized, const N: usize>(&'a T, [u8; N]);",
]
FIELD_ATTR_ITEMS = [
    "struct S { %s a: u8 }", "struct S(%s u8, u8);", "enum E { A(%s u8), B }", "enum E { %s A { x: u8 } }", "union U { %s a: u8, b: u8 }",
]


def mutate(rng, src):
    """One token-level mutation inside a random #[educe(...)] attribute of `src`."""
    spans = [m.span() for m in re.finditer(r"#\[educe\((?:[^\[\]]|\[[^\]]*\])*\)\]", src)]
    if not spans:
        return None
    a, b = rng.choice(spans)
    inner = src[a + len("#[educe("): b - 2]
    toks = TOKEN.findall(inner)
    if not toks and rng.random() < 0.5:
        toks = ["x"]
    k = rng.random()
    if toks:
        i = rng.randrange(len(toks))
    if not toks:
        toks = [rng.choice(REPLACEMENTS)]
    elif k < 0.2:
        del toks[i]
    elif k < 0.35:
        toks.insert(i, toks[i])
    elif k < 0.5 and len(toks) > 1:
        j = min(i + 1, len(toks) - 1)
        toks[i], toks[j] = toks[j], toks[i]
    elif k < 0.8:
        toks[i] = rng.choice(REPLACEMENTS)
    elif k < 0.9:
        toks.insert(i, rng.choice(REPLACEMENTS))
    else:
        toks = toks[:i]
    return src[:a] + "#[educe(" + " ".join(toks) + ")]" + src[b:]


def deep_nesting_probe():
    """Known finding: ~1000 nested parentheses in a Default expression overflow the stack inside
    syn's recursive expression parser (called by educe), while rustc alone accepts the expression."""
    so = common.build_proc_macro()
    d = common.scratch("C17deep")
    try:
        n = 1000
        e = "(" * n + "S{a:1}" + ")" * n
        with_derive = os.path.join(d, "deep.rs")
        open(with_derive, "w").write("use educe::Educe;\n#[derive(Educe)]\n#[educe(Default(expression = %s))]\nstruct S{a:u8}\nfn main(){ let _ = S::default(); }\n" % e)
        plain = os.path.join(d, "plain.rs")
        open(plain, "w").write("struct S{a:u8}\nfn main(){ let _s: S = %s; }\n" % e)
        p1 = subprocess.run(["rustc", "--edition", "2021", "--extern", "educe=" + so, "-o", os.path.join(d, "a"), with_derive],
                            capture_output=True, text=True, timeout=300)
        p2 = subprocess.run(["rustc", "--edition", "2021", "-o", os.path.join(d, "b"), plain], capture_output=True, text=True, timeout=300)
        crashed = "SIGSEGV" in p1.stderr or p1.returncode < 0 or "stack overflow" in p1.stderr
        return crashed, p2.returncode == 0 and "SIGSEGV" not in p2.stderr, n
    finally:
        import shutil
        shutil.rmtree(d, ignore_errors=True)


def main(tier):
    t0 = time.time()
    proof = common.proof_obligations("C17", modules=["EduceModel.Props.C17", "EduceModel.Props.Profile"])
    rng = random.Random(common.seed())
    n_valid, n_mut = (150, 6000) if tier == "quick" else (1500, 200000)
    tie = {"evaluations": 0, "distinct_nontrivial": 0, "failing": [], "broken": [], "broken_details": [], "known": [], "samples": [], "extra": {}}
    cases = []
    # (1) adversarial forms at the type level and at field / variant level
    own = source_name_attrs()
    tie["extra"]["names_of_the_source_used_as_trait_names"] = len(own) // 4
    for a in ADVERSARIAL_ATTRS + own:
        for it in (ITEMS if a in ADVERSARIAL_ATTRS else ITEMS[3:8:2]):
            cases.append("#[derive(Educe)]\n%s\n%s" % (a, it))
        for it in FIELD_ATTR_ITEMS:
            tr = re.findall(r"educe\(\s*(?:::)?(\w+)", a)
            top = "#[educe(%s)]" % (tr[0] if tr and tr[0][0].isupper() and tr[0] in attr.ALL_TRAITS else "Debug")
            cases.append("#[derive(Educe)]\n%s\n%s" % (top, it % a))
    # (1a) an explicit rank equal to the default rank (isize::MIN + position) of a later field without one: the repetition is
    # noticed at a field that has no rank of its own (no span of a written rank to point at)
    for t in ["Ord", "PartialOrd", "PartialOrd, Ord"]:
        first = t.split(",")[0]
        for k in (1, 2):
            r = -9223372036854775808 + k
            cases.append("#[derive(Educe)]\n#[educe(%s)]\nstruct S { #[educe(%s(rank = %d))] a: u8, b: u8, c: u8 }" % (t, first, r))
            cases.append("#[derive(Educe)]\n#[educe(%s)]\nstruct S(#[educe(%s(rank = %d))] u8, u8, u8);" % (t, first, r))
            cases.append("#[derive(Educe)]\n#[educe(%s)]\nenum E { A(#[educe(%s(rank = %d))] u8, u8, u8), B { #[educe(%s(rank = %d))] x: u8, y: u8, z: u8 } }" % (t, first, r, first, r))
    # (1b) unusual field / target types under the traits that inspect types
    for ty in ODD_TYPES:
        for t in ["Deref", "Into(%s)" % ty, "Into(u8)", "Default", "Debug", "Clone", "PartialEq", "Hash"]:
            if t == "Default" and ("dyn" in ty or "*const" in ty or "fn(" in ty):
                continue
            cases.append("#[derive(Educe)]\n#[educe(%s)]\nstruct S(%s);" % (t, ty))
            cases.append("#[derive(Educe)]\n#[educe(%s)]\nenum E { A(%s), B { x: %s } }" % (t, ty, ty))
            cases.append("#[derive(Educe)]\n#[educe(%s)]\nstruct S { #[educe(%s)] a: %s, b: u8 }" % (t, t.split("(")[0] if t.startswith(("Deref", "Default")) else t, ty))
    # (2) token-level mutations of valid definitions
    pool = [s for _, s, _ in attr.valid_pool(rng, n_valid)]
    tries = 0
    while len(cases) < n_mut and tries < n_mut * 3:
        tries += 1
        m = mutate(rng, rng.choice(pool))
        if m:
            cases.append(m)
    cases = list(enumerate(cases))
    try:
        t1 = time.time()
        real = attr.expand_real(cases, group=True)
        tie["extra"]["expand_wall_s"] = round(time.time() - t1, 2)
        model = attr.expand_model(real)
    except (common.BuildError, RuntimeError, subprocess.TimeoutExpired) as e:
        tie["broken"].append("B4: " + str(e)[:500])
        return common.finish("C17", tier, t0, proof, tie)
    hist = {}
    src = dict(cases)
    classes = set()
    for i, s in cases:
        r = real[i]
        hist[r["outcome"]] = hist.get(r["outcome"], 0) + 1
        if r["outcome"] == "parse_error":
            continue
        tie["evaluations"] += 1
        gf, gb = attr.grouped_findings(r, s)
        tie["failing"] += gf[:1]
        for b in gb[:1]:
            tie["broken"].append("B4: " + b)
            tie["broken_details"].append({"rust_source": s})
        if r["outcome"] == "err":
            classes.add(attr.classify(r["message"]))
        if r["outcome"] == "abort":
            tie["failing"].append({"what": "the macro aborted the process or did not terminate (stack overflow / endless loop)", "rust_source": s,
                                   "observed": r.get("message"), "expected_spec": "a diagnostic or generated items"})
            continue
        if r["outcome"] == "panic":
            # believed only after the real proc-macro panics under rustc as well
            if attr.confirm_panic_with_rustc(s):
                tie["failing"].append({"what": "proc-macro derive panicked", "rust_source": s, "observed": r.get("message"),
                                       "expected_spec": "a diagnostic or generated items", "model": model.get(i, ["?"])[0]})
                if len(tie["failing"]) >= 3:
                    break
            else:
                tie["extra"]["in_process_only_panics"] = tie["extra"].get("in_process_only_panics", 0) + 1
            continue
        m = model.get(i)
        if m is None:
            tie["broken"].append("B4: no model result for a case")
            continue
        bad = attr.compare(r, m, strict_class=False, compare_items=False)
        if bad:
            tie["broken"].append("B4: outcome kind differs: " + bad[0][:200])
            tie["broken_details"].append({"rust_source": s, "disagreement": bad})
    tie["broken"] = tie["broken"][:3]
    tie["distinct_nontrivial"] = len(classes) + hist.get("ok", 0)
    tie["extra"]["outcomes"] = hist
    tie["extra"]["diagnostic_classes_hit"] = sorted(classes)
    crashed, plain_ok, depth = deep_nesting_probe()
    if crashed and plain_ok:
        known = [k for k in common.known_findings() if k.get("status") == "open" and k.get("property") == "C17" and k.get("matcher", {}).get("kind") == "deep-nesting"]
        if known:
            tie["known"].append("%d nested parentheses in `Default(expression = ...)`: stack overflow inside syn's recursive parser called by the macro (rustc alone accepts the expression)" % depth)
        else:
            tie["failing"].append({"what": "stack overflow inside the proc-macro on a deeply nested expression", "nesting": depth})
    tie["rule"] = ("%d adversarial attribute forms x item shapes (type, variant and field positions) plus token-level mutations (delete, "
                   "duplicate, swap, replace, insert, truncate) of valid #[educe(...)] arguments from all behavioural generators; run in-process "
                   "under catch_unwind, each also with its field types inside None-delimited groups (whole type / referent of a reference / every parenthesised type, as `$t:ty` macro fragments arrive); outcome kind (ok / diagnostic / panic) compared with the model; in-process panics re-run through rustc. "
                   "the names the crate's own source gives to enum variants, consts and statics are tried as trait names too (`_Nothing`, `Auto`, ...). "
                   "distinct_nontrivial = accepted inputs + distinct diagnostic classes hit" % len(ADVERSARIAL_ATTRS))
    tie["samples"] = [{"rust_source": src[i], "outcome": real[i]["outcome"], "message": real[i].get("message", "")[:120]} for i in list(src)[5::997][:5]]
    return common.finish("C17", tier, t0, proof, tie)
