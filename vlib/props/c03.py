"""C03 — ordering is lexicographic over non-ignored fields in rank order."""
import time
from .. import common, gen, b1
from .c02 import P as EqP


def pair_loop(plugin, td, vals, body):
    """Rust loop over all / sampled ordered pairs of the value list `vs`."""
    if not vals:
        return "        let _ = 0;"
    items = ", ".join("(%d, vec!%s, %s)" % (k, ids, td.value_expr(k, ids)) for k, ids in vals)
    n = len(vals)
    if n * n <= plugin.cap_pairs:
        pre, loop = "", "for a in vs.iter() { for b in vs.iter() {"
    else:
        pairs = [(plugin.rng.randrange(n), plugin.rng.randrange(n)) for _ in range(plugin.cap_pairs)]
        pre = "let ps: Vec<(usize, usize)> = vec![%s];" % ", ".join("(%d,%d)" % p for p in pairs)
        loop = "for (i, j) in ps.iter() { let a = &vs[*i]; let b = &vs[*j]; {"
    return f'''
        let vs: Vec<(usize, Vec<usize>, {td.name})> = vec![{items}];
        {pre}
        {loop}
{body}
        }} }}'''


def supertrait_items(td, mode):
    """Hand-written supertrait impls so that the check does not depend on other derives."""
    n = td.name
    items = ["impl PartialEq for %s { fn eq(&self, _o: &Self) -> bool { true } }" % n]
    if mode in ("ord", "both"):
        items.append("impl Eq for %s {}" % n)
    if mode == "ord":
        items.append("impl PartialOrd for %s { fn partial_cmp(&self, o: &Self) -> Option<Ordering> { Some(Ord::cmp(self, o)) } }" % n)
    return items


def draw_ord_fields(rng, td, mode, explicit_rank_p=0.5):
    """Abstract ignore/method/rank requests + rendering, shared with C04."""
    total = mode in ("ord", "both")
    carriers = {"ord": ["Ord"], "partialord": ["PartialOrd"], "both": ["Ord", "PartialOrd"]}[mode]
    all_method = rng.random() < 0.08        # no field of any variant compared by the field type's own comparison
    for v in td.variants:
        n = len(v.fields)
        style = rng.random()
        if style < 0.12:
            # magnitudes: beyond i32, around the ends of isize (default ranks are isize::MIN + position)
            I_MIN, I_MAX = -2 ** 63, 2 ** 63 - 1
            pool = [I_MAX - k for k in range(8)] + [I_MIN + 100 + k for k in range(8)] + [2 ** 31 + k for k in range(-2, 3)] + \
                   [-2 ** 31 + k for k in range(-2, 3)] + [2 ** 32 + k for k in range(3)] + [-1, 0, 1]
            ranks = rng.sample(pool, n)
        else:
            ranks = rng.sample(range(-8, 14), n)
        big = style >= 0.12 and rng.random() < 0.1
        nearmin = rng.random() < 0.1
        reqs = []
        for idx, f in enumerate(v.fields):
            r = rng.random()
            if all_method:
                r = 0.3 if f.ty in gen.METHOD_LEAVES else 0.1       # custom method where there is one, ignored otherwise
            req = {"ignore": r < 0.25, "method": None, "rank": None}
            needs = "Ord" if total else "PartialOrd"
            if 0.25 <= r < 0.5 and f.ty in gen.METHOD_LEAVES:
                req["method"] = gen.METHOD_LEAVES.index(f.ty)
            if not req["ignore"] and req["method"] is None and needs not in gen.LEAVES[f.ty]["traits"]:
                # the field type does not implement the trait: it must be ignored or use a method
                if f.ty in gen.METHOD_LEAVES:
                    req["method"] = gen.METHOD_LEAVES.index(f.ty)
                else:
                    req["ignore"] = True
            if req["ignore"] and req["method"] is None and f.ty in gen.METHOD_LEAVES and rng.random() < 0.2:
                req["method"] = gen.METHOD_LEAVES.index(f.ty)          # both: a field switched off that still names its method
            if rng.random() < explicit_rank_p:
                req["rank"] = ranks[idx] * (10 ** 12 if big else 1)
            reqs.append(req)
        if nearmin:
            # explicit ranks inside [isize::MIN, isize::MIN + n): the default ranks of the *other* fields live there
            # (isize::MIN + position), so only the slots of ignored or explicitly ranked fields are free
            free = [j for j, q in enumerate(reqs) if q["ignore"] or q["rank"] is not None]
            rng.shuffle(free)
            for q in reqs:
                if q["rank"] is not None and not q["ignore"] and free:
                    q["rank"] = -2 ** 63 + free.pop()
        for idx, f in enumerate(v.fields):
            req = reqs[idx]
            f.req["Ord"] = req
            path = ("cmp_m_%s" if total else "pcmp_m_%s") % f.ty
            f.metas = gen.render_field_cmp_attr(rng, rng.choice(carriers), req, path, allow_rank=True)


class P(b1.Plugin):
    ops = ("cmp", "pcmp")
    driver_traits = (("ord", "Ord"),)
    rule = ("struct/enum definitions with 0-4 fields of leaf types L/F(NaN)/S; Ord, PartialOrd or both educed; per field "
            "ignore/method/rank requests (ranks: distinct values incl. negative and ±10^12-scale, rendered as int, string, "
            "parenthesised and negative-literal spellings) carried by Ord(..) or PartialOrd(..); all or sampled ordered value "
            "pairs, cmp and/or partial_cmp observed. distinct_nontrivial = definitions with >=2 fields in some variant and an "
            "explicit rank/ignore/method request on which at least two different results were observed")

    def __init__(self, cap_pairs):
        self.cap_pairs = cap_pairs

    def make(self, rng, i):
        self.rng = rng
        kind = rng.choice(["struct", "enum", "enum"])
        mode = rng.choice(["ord", "partialord", "both"])
        leaves = ["L", "L", "S", "F"] if mode == "partialord" else ["L", "L", "S", "F"]
        td = gen.make_skeleton(rng, i, kind, leaves)
        metas = {"ord": ["Ord"], "partialord": ["PartialOrd"], "both": ["Ord", "PartialOrd"]}[mode]
        rng.shuffle(metas)
        td.traits = [", ".join(metas)] if rng.random() < 0.5 else metas
        td.extra_items = supertrait_items(td, mode)
        td.extra_json = {"ordmode": mode}
        td.mode = mode
        draw_ord_fields(rng, td, mode)
        noise = [t for t in ("Debug", "Hash") if rng.random() < 0.35]
        td.type_spelling = True
        td.own_discriminants = True
        gen.finalize_attrs(rng, td, noise)
        return td

    def nontrivial(self, td):
        return any(len(v.fields) >= 2 and any(f.req["Ord"]["ignore"] or f.req["Ord"]["method"] is not None
                                              or f.req["Ord"]["rank"] is not None for f in v.fields)
                   for v in td.variants)

    def observe(self, td, vals):
        lines = []
        if td.mode in ("ord", "both"):
            lines.append(f'            println!("[\\"cmp\\",{td.id},{{}},{{}},{{}},{{}},\\"{{}}\\"]", a.0, ju(&a.1), b.0, ju(&b.1), ord3(Ord::cmp(&a.2, &b.2)));')
        if td.mode in ("partialord", "both"):
            lines.append(f'            println!("[\\"pcmp\\",{td.id},{{}},{{}},{{}},{{}},\\"{{}}\\"]", a.0, ju(&a.1), b.0, ju(&b.1), oord3(PartialOrd::partial_cmp(&a.2, &b.2)));')
        return pair_loop(self, td, vals, "\n".join(lines))

    def canon(self, r):
        return r


def main(tier):
    t0 = time.time()
    proof = common.proof_obligations("C03", modules=["EduceModel.Props.C03", "EduceModel.Props.E2E", "EduceModel.Props.Profile"])
    n_defs, cap_vals, cap_pairs = (160, 12, 150) if tier == "quick" else (1500, 27, 700)
    tie = b1.run_b1("C03", P(cap_pairs), n_defs, cap_vals, common.seed())
    return common.finish("C03", tier, t0, proof, tie)
