"""C05 — hash input is a function of the variant and non-ignored fields only."""
import time
from .. import common, gen, b1
from .c03 import pair_loop


class P(b1.Plugin):
    ops = ("hash", "eqhash")
    driver_traits = (("hash", "Hash"), ("eq", "PartialEq"))
    rule = ("struct/enum definitions with 0-4 fields of leaf types L/S/F(via method or ignored); per field an ignore/method "
            "request for Hash in a random documented spelling; every value's fed data captured by a recording Hasher (each write_* "
            "call logged); for a third of the definitions PartialEq is educed with the same ignore choices and `a == b => same fed "
            "data` is observed on value pairs. distinct_nontrivial = definitions with >=1 field and an ignore/method request on "
            "which at least two different feeds were observed")

    def __init__(self, cap_pairs):
        self.cap_pairs = cap_pairs

    def make(self, rng, i):
        self.rng = rng
        kind = rng.choice(["struct", "enum", "enum"])
        td = gen.make_skeleton(rng, i, kind, ["L", "L", "S", "F", "PD"])
        with_eq = rng.random() < 0.35
        td.with_eq = with_eq
        metas = ["Hash"] + (["PartialEq"] if with_eq else [])
        rng.shuffle(metas)
        td.traits = [", ".join(metas)] if rng.random() < 0.5 else metas
        for v in td.variants:
            for f in v.fields:
                r = rng.random()
                req = {"ignore": r < 0.3, "method": None}
                if 0.3 <= r < 0.55 and not with_eq and f.ty in gen.METHOD_LEAVES:
                    req["method"] = gen.METHOD_LEAVES.index(f.ty)
                if not req["ignore"] and req["method"] is None and "Hash" not in gen.LEAVES[f.ty]["traits"]:
                    if with_eq:
                        req["ignore"] = True
                    else:
                        req["method"] = gen.METHOD_LEAVES.index(f.ty)
                if req["ignore"] and f.ty in gen.METHOD_LEAVES and rng.random() < 0.2:
                    req["method"] = gen.METHOD_LEAVES.index(f.ty)      # both: a field switched off that still names its method
                f.req["Hash"] = req
                f.metas = gen.render_field_cmp_attr(rng, "Hash", req, "hash_m_%s" % f.ty)
                if with_eq:
                    f.req["PartialEq"] = {"ignore": req["ignore"], "method": None}
                    f.metas += gen.render_field_cmp_attr(rng, "PartialEq", f.req["PartialEq"], "")
                    rng.shuffle(f.metas)
        noise = [t for t in ("Debug",) if rng.random() < 0.35]
        if not with_eq and rng.random() < 0.3:
            noise.append("PartialEq")
        if kind == "enum" and len(td.variants) >= 2 and rng.random() < 0.4:
            # written discriminants (the fed variant tag is the position, whatever is written)
            all_unit = all(v.shape == "unit" for v in td.variants)
            r = rng.choice([None, "u8", "i32", "isize", "u16"]) if all_unit else rng.choice(["u8", "i32", "isize", "u16"])
            gen.assign_discriminants(rng, td)
            if r:
                td.attr_src.append("#[repr(%s)]" % r)
        td.type_spelling = True
        gen.finalize_attrs(rng, td, noise)
        return td

    def nontrivial(self, td):
        return any(f.req["Hash"]["ignore"] or f.req["Hash"]["method"] is not None for v in td.variants for f in v.fields)

    def observe(self, td, vals):
        if not vals:
            return "        let _ = 0;"
        out = []
        items = ", ".join("(%d, vec!%s, %s)" % (k, ids, td.value_expr(k, ids)) for k, ids in vals)
        out.append(f'''
        {{ let vs: Vec<(usize, Vec<usize>, {td.name})> = vec![{items}];
        for a in vs.iter() {{ println!("[\\"hash\\",{td.id},{{}},{{}},{{}}]", a.0, ju(&a.1), js(&rec(&a.2))); }} }}''')
        if td.with_eq:
            body = f'            println!("[\\"eqhash\\",{td.id},{{}},{{}},{{}},{{}},{{}}]", a.0, ju(&a.1), b.0, ju(&b.1), !(a.2 == b.2) || rec(&a.2) == rec(&b.2));'
            out.append(pair_loop(self, td, vals, body))
        return "\n".join(out)

    def canon(self, r):
        return r


def main(tier):
    t0 = time.time()
    proof = common.proof_obligations("C05", modules=["EduceModel.Props.C05", "EduceModel.Props.E2E", "EduceModel.Props.Profile"])
    n_defs, cap_vals, cap_pairs = (200, 15, 120) if tier == "quick" else (2000, 40, 500)
    tie = b1.run_b1("C05", P(cap_pairs), n_defs, cap_vals, common.seed())
    return common.finish("C05", tier, t0, proof, tie)
