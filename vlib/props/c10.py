"""C10 — Into returns the designated field for every requested target type."""
import time
from .. import common, gen, b1

T = gen.INTO_TYPES
METHOD = {"X16": ("m_x16", 0), "X32": ("m_x32", 1)}


class P(b1.Plugin):
    type_names = None      # set below: names of the palette types, by index
    ops = ("into",)
    driver_traits = (("into", "Into"),)
    rule = ("struct/enum definitions with 1-4 fields per variant over source/target types whose conversions are pairwise "
            "distinguishable (A8, B8, X16, X32 with tagging From impls); 1-2 requested targets in one or several #[educe] attributes; "
            "per (variant, target) the designation is the sole field, a field-level Into(T) marker (with or without method, on a "
            "field of any type incl. T itself) or the unique field of type T; x.into() observed for every target and value. "
            "distinct_nontrivial = definitions with a variant of >=2 fields")

    def make(self, rng, i):
        self.rng = rng
        kind = rng.choice(["struct", "enum", "enum"])
        while True:
            td = gen.make_skeleton(rng, i, kind, ["A8", "B8", "X16", "X32"], max_fields=4, max_variants=3)
            if td.variants and all(v.shape != "unit" and v.fields for v in td.variants):
                break
        targets = rng.sample(["X16", "X32"], rng.choice([1, 2, 2]))
        td.targets = targets
        for v in td.variants:
            for f in v.fields:
                f.markers = []
        for v in td.variants:
            n = len(v.fields)
            for t in targets:
                if n == 1:
                    f = v.fields[0]
                    if rng.random() < 0.4:
                        f.markers.append((t, rng.random() < 0.5))
                    continue
                same = [j for j, f in enumerate(v.fields) if f.ty == t]
                if len(same) == 1 and rng.random() < 0.5:
                    continue                      # designated by being the unique field of type T
                j = rng.randrange(n)
                v.fields[j].markers.append((t, rng.random() < 0.5))
        for v in td.variants:
            for f in v.fields:
                ms = []
                for t, with_m in f.markers:
                    if with_m:
                        ms.append("Into(%s, %s)" % (t, gen.spell_path_param(rng, "method", METHOD[t][0])))
                    else:
                        ms.append("Into(%s)" % t)
                rng.shuffle(ms)
                f.metas = ms
                f.req["Into"] = {"ty": T.index(f.ty),
                                 "markers": [[T.index(t), METHOD[t][1] if with_m else None] for t, with_m in f.markers]}
        metas = ["Into(%s)" % t for t in targets]
        td.traits = [", ".join(metas)] if rng.random() < 0.5 else metas
        td.extra_json = {"targets": [T.index(t) for t in targets]}
        noise = [t for t in ("Debug",) if rng.random() < 0.3]
        gen.finalize_attrs(rng, td, noise)
        return td

    def nontrivial(self, td):
        return any(len(v.fields) >= 2 for v in td.variants)

    def observe(self, td, vals):
        out = []
        for k, ids in vals:
            e = td.value_expr(k, ids)
            for t in td.targets:
                out.append(f'        {{ let r: {t} = Into::into({e}); println!("[\\"into\\",{td.id},{T.index(t)},{k},{ids},{{}}]", r.0); }}')
        return "\n".join(out)

    def canon(self, r):
        return r


P.type_names = T


def main(tier):
    t0 = time.time()
    proof = common.proof_obligations("C10")
    n_defs, cap_vals = (250, 6) if tier == "quick" else (3000, 20)
    tie = b1.run_b1("C10", P(), n_defs, cap_vals, common.seed())
    # "... else the unique field whose declared type is T": no designation, or more than one, is refused and never resolved
    from .. import attr, offences
    cases = [(i, src) for i, (label, classes, src) in enumerate(offences.generate()) if label.startswith("into-field")]
    try:
        real = attr.expand_real(cases)
        for i, src in cases:
            tie["evaluations"] += 1
            if real[i]["outcome"] == "ok":
                tie["failing"].append({"what": "an Into request without a unique designated field is resolved instead of refused", "rust_source": src,
                                       "observed": "accepted: " + real[i]["tokens"][:300], "expected_spec": "refused with a diagnostic"})
        tie["extra"]["undesignated_into_inputs_refused"] = len(cases)
        tie["failing"] = tie["failing"][:4]
    except (common.BuildError, RuntimeError) as e:
        tie["broken"].append("B4: " + str(e)[:300])
    return common.finish("C10", tier, t0, proof, tie)
