"""C10 — Into returns the designated field for every requested target type."""
import time
from .. import common, gen, b1

T = gen.INTO_TYPES
METHOD = {"X16": ("m_x16", 0), "X32": ("m_x32", 1)}


class P(b1.Plugin):
    type_names = None      # set below: names of the palette types, by index
    extra_methods = [("m_x16", 0), ("m_x32", 1)]
    ops = ("into",)
    driver_traits = (("into", "Into"),)
    rule = ("struct/enum definitions with 1-4 fields per variant over source/target types whose conversions are pairwise "
            "distinguishable (A8, B8, X16, X32 with tagging From impls); 1-2 requested targets in one or several #[educe] attributes; "
            "per (variant, target) the designation is the sole field, a field-level Into(T) marker (with or without method, on a "
            "field of any type incl. T itself) or the unique field of type T; x.into() observed for every target and value. "
            "distinct_nontrivial = definitions with a variant of >=2 fields")

    def make(self, rng, i):
        self.rng = rng
        kind = rng.choice(["struct", "enum", "enum"])
        while True:
            td = gen.make_skeleton(rng, i, kind, ["A8", "B8", "X16", "X32"], max_fields=4, max_variants=3)
            if td.variants and all(v.shape != "unit" and v.fields for v in td.variants):
                break
        targets = rng.sample(["X16", "X32"], rng.choice([1, 2, 2]))
        td.targets = targets
        for v in td.variants:
            for f in v.fields:
                f.markers = []
        for v in td.variants:
            n = len(v.fields)
            for t in targets:
                if n == 1:
                    f = v.fields[0]
                    if rng.random() < 0.4:
                        f.markers.append((t, rng.random() < 0.5))
                    continue
                same = [j for j, f in enumerate(v.fields) if f.ty == t]
                if len(same) == 1 and rng.random() < 0.5:
                    continue                      # designated by being the unique field of type T
                j = rng.randrange(n)
                v.fields[j].markers.append((t, rng.random() < 0.5))
        # now and then a designated field is called like its own conversion function (`#[educe(Into(X16, method(m_x16)))]
        # m_x16: A8`): a binding of the field's name in the generated code would capture the call
        for v in td.variants:
            if v.shape == "named" and rng.random() < 0.2:
                cands = [f for f in v.fields if any(with_m for _, with_m in f.markers)]
                if cands:
                    f = rng.choice(cands)
                    nm = METHOD[[t for t, with_m in f.markers if with_m][0]][0]
                    if all(g.name != nm for g in v.fields):
                        f.name = nm
        for v in td.variants:
            for f in v.fields:
                ms = []
                for t, with_m in f.markers:
                    if with_m:
                        ms.append("Into(%s, %s)" % (t, gen.spell_path_param(rng, "method", METHOD[t][0])))
                    else:
                        ms.append("Into(%s)" % t)
                rng.shuffle(ms)
                f.metas = ms
                f.req["Into"] = {"ty": T.index(f.ty),
                                 "markers": [[T.index(t), METHOD[t][1] if with_m else None] for t, with_m in f.markers]}
        metas = ["Into(%s)" % t for t in targets]
        td.traits = [", ".join(metas)] if rng.random() < 0.5 else metas
        td.extra_json = {"targets": [T.index(t) for t in targets]}
        noise = [t for t in ("Debug",) if rng.random() < 0.3]
        gen.finalize_attrs(rng, td, noise)
        return td

    def nontrivial(self, td):
        return any(len(v.fields) >= 2 for v in td.variants)

    def observe(self, td, vals):
        out = []
        for k, ids in vals:
            e = td.value_expr(k, ids)
            for t in td.targets:
                out.append(f'        {{ let r: {t} = Into::into({e}); println!("[\\"into\\",{td.id},{T.index(t)},{k},{ids},{{}}]", r.0); }}')
        return "\n".join(out)

    def canon(self, r):
        return r


P.type_names = T


REF_TARGETS = r"""
#![allow(warnings)]
use educe::Educe;
fn up(s: &'static str) -> &'static str { if s == "a" { "A" } else { "?" } }
#[derive(Educe)] #[educe(Into(&str))] pub struct A { #[educe(Into(&str))] pub a: &'static str, pub b: &'static str }
#[derive(Educe)] #[educe(Into(&'static str))] pub struct B { pub a: &'static str, #[educe(Into(&str))] pub b: &'static str }
#[derive(Educe)] #[educe(Into(&str))] pub enum C { V(#[educe(Into(&'static str, method(up)))] &'static str, u8), W { #[educe(Into(&str))] x: &'static str, y: &'static str } }
#[derive(Educe)] #[educe(Into(&'static [u8]), Into(u8))] pub struct D(#[educe(Into(&[u8]))] pub &'static [u8], pub &'static [u8], pub u8);
#[derive(Educe)] #[educe(Into(&str))] pub struct E(pub u8, pub &'static str);
fn main() {
    let s: &str = A { a: "a", b: "b" }.into(); println!("A {}", s);
    let s: &str = B { a: "a", b: "b" }.into(); println!("B {}", s);
    let s: &str = C::V("a", 1).into(); println!("C1 {}", s);
    let s: &str = C::W { x: "x", y: "y" }.into(); println!("C2 {}", s);
    let s: &[u8] = D(b"12", b"34", 5).into(); println!("D {:?}", s);
    let n: u8 = D(b"12", b"34", 5).into(); println!("D8 {}", n);
    let s: &str = E(1, "e").into(); println!("E {}", s);
}
"""


def through_fragments(src):
    """the same definitions as the output of macro_rules! macros whose `$t:ty` fragments are the reference types, in the
    attributes and in the fields alike (each then reaches the derive inside a None-delimited group)"""
    import re
    lines = []
    for k, l in enumerate(src.split("\n")):
        if l.startswith("#[derive(Educe)]"):
            tys = []

            def sub(m):
                tys.append(m.group(0))
                return "$t%d" % (len(tys) - 1)
            body = re.sub(r"&(?:'static )?(?:str|\[u8\])", sub, l)
            l = "macro_rules! mk%d { (%s) => { %s } } mk%d!(%s);" % (k, ", ".join("$t%d:ty" % j for j in range(len(tys))), body, k, ", ".join(tys))
        lines.append(l)
    return "\n".join(lines)


def reference_target_tie(tie):
    """reference target types, the field marker and the request spelling the lifetime differently (`&str` / `&'static str`)"""
    import os, subprocess
    so = common.build_proc_macro()
    work = common.scratch("C10r")
    path = os.path.join(work, "refs.rs")
    # (third pass: the macro built by cargo's release profile, where `debug_assert!`s are compiled out)
    for REF, so in ((REF_TARGETS, so), (through_fragments(REF_TARGETS), so), (REF_TARGETS, common.build_proc_macro(release=True))):
        open(path, "w").write(REF)
        rc, diags = common.rustc_compile(path, os.path.join(work, "refs"), so)
        tie["evaluations"] += 7
        if rc != 0:
            errs = [d for d in diags if d.get("level") == "error" and d.get("spans")]
            e = errs[0] if errs else {"message": "rustc failed", "spans": [{"line_start": 0}]}
            ln = e["spans"][0]["line_start"]
            lines = REF.split("\n")
            tie["failing"].append({"what": "Into with a reference target type is refused or does not compile", "rust_source": lines[ln - 1] if 0 < ln <= len(lines) else "",
                                   "observed": (e.get("rendered") or e.get("message"))[:600], "expected_spec": "accepted; returns the designated field"})
        else:
            p = subprocess.run([os.path.join(work, "refs")], capture_output=True, text=True, timeout=60)
            want = ["A a", "B b", "C1 A", "C2 x", "D [49, 50]", "D8 5", "E e"]
            got = p.stdout.split("\n")[:-1]
            if got != want:
                k = next((j for j in range(min(len(got), len(want))) if got[j] != want[j]), 0)
                tie["failing"].append({"what": "Into with a reference target returns a different field", "rust_source": REF,
                                       "observed": got[k] if k < len(got) else p.stderr[-300:], "expected_spec": want[k]})
    tie["extra"]["reference_target_cases"] = 21
    import shutil
    shutil.rmtree(work, ignore_errors=True)


def main(tier):
    t0 = time.time()
    proof = common.proof_obligations("C10", modules=["EduceModel.Props.C10", "EduceModel.Props.E2E", "EduceModel.Props.Profile"])
    n_defs, cap_vals = (250, 6) if tier == "quick" else (3000, 20)
    tie = b1.run_b1("C10", P(), n_defs, cap_vals, common.seed())
    try:
        reference_target_tie(tie)
    except (common.BuildError, OSError) as e:
        tie["broken"].append("harness: " + str(e)[:300])
    # "... else the unique field whose declared type is T": no designation, or more than one, is refused and never resolved
    from .. import attr, offences
    cases = [(i, src) for i, (label, classes, src) in enumerate(offences.generate()) if label.startswith("into-field")]
    try:
        real = attr.expand_real(cases)
        for i, src in cases:
            tie["evaluations"] += 1
            if real[i]["outcome"] == "ok":
                tie["failing"].append({"what": "an Into request without a unique designated field is resolved instead of refused", "rust_source": src,
                                       "observed": "accepted: " + real[i]["tokens"][:300], "expected_spec": "refused with a diagnostic"})
        tie["extra"]["undesignated_into_inputs_refused"] = len(cases)
        tie["failing"] = tie["failing"][:4]
    except (common.BuildError, RuntimeError) as e:
        tie["broken"].append("B4: " + str(e)[:300])
    return common.finish("C10", tier, t0, proof, tie)
