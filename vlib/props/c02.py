"""C02 — PartialEq is exactly field-wise equality over the compared fields."""
import time
from .. import common, gen, b1


class P(b1.Plugin):
    ops = ("eq", "ne")
    driver_traits = (("eq", "PartialEq"),)
    rule = ("struct/enum definitions over unit/tuple/named shapes with 0-4 fields of leaf types L/F(NaN)/S; per field an "
            "ignore/method request carried by PartialEq(..) or, when Eq is educed, Eq(..), in a random documented spelling; "
            "all (or sampled) ordered pairs of values incl. cross-variant pairs; == and != observed. "
            "distinct_nontrivial = definitions with >=1 field and >=1 ignore/method request on which both true and false were observed")

    def __init__(self, cap_pairs):
        self.cap_pairs = cap_pairs

    def make(self, rng, i):
        kind = rng.choice(["struct", "enum", "enum"])
        td = gen.make_skeleton(rng, i, kind, ["L", "L", "F", "S", "PD"])
        with_eq = rng.random() < 0.4
        metas = ["PartialEq"] + (["Eq"] if with_eq else [])
        rng.shuffle(metas)
        td.traits = [", ".join(metas)] if rng.random() < 0.5 else metas
        for v in td.variants:
            for f in v.fields:
                r = rng.random()
                req = {"ignore": r < 0.3, "method": gen.METHOD_LEAVES.index(f.ty) if (0.3 <= r < 0.6 and f.ty in gen.METHOD_LEAVES) else None}
                if rng.random() < 0.05 and f.ty in gen.METHOD_LEAVES:   # both: ignored field that also names a method
                    req = {"ignore": True, "method": gen.METHOD_LEAVES.index(f.ty)}
                f.req["PartialEq"] = req
                carrier = "Eq" if (with_eq and rng.random() < 0.4) else "PartialEq"
                f.metas = gen.render_field_cmp_attr(rng, carrier, req, "eq_m_%s" % f.ty)
        self.rng = rng
        noise = [t for t in ("Debug", "Hash") if rng.random() < 0.35]
        td.type_spelling = True
        gen.finalize_attrs(rng, td, noise)
        return td

    def nontrivial(self, td):
        return any(f.req["PartialEq"]["ignore"] or f.req["PartialEq"]["method"] is not None
                   for v in td.variants for f in v.fields)

    def observe(self, td, vals):
        if not vals:
            return "        let _ = 0;"
        items = ", ".join("(%d, vec!%s, %s)" % (k, ids, td.value_expr(k, ids)) for k, ids in vals)
        n = len(vals)
        if n * n <= self.cap_pairs:
            loop = "for a in vs.iter() { for b in vs.iter() {"
            close = "} }"
            pre = ""
        else:
            pairs = [(self.rng.randrange(n), self.rng.randrange(n)) for _ in range(self.cap_pairs)]
            pre = "let ps: Vec<(usize, usize)> = vec![%s];" % ", ".join("(%d,%d)" % p for p in pairs)
            loop = "for (i, j) in ps.iter() { let a = &vs[*i]; let b = &vs[*j]; {"
            close = "} }"
        return f'''
        let vs: Vec<(usize, Vec<usize>, {td.name})> = vec![{items}];
        {pre}
        {loop}
            println!("[\\"eq\\",{td.id},{{}},{{}},{{}},{{}},{{}}]", a.0, ju(&a.1), b.0, ju(&b.1), a.2 == b.2);
            println!("[\\"ne\\",{td.id},{{}},{{}},{{}},{{}},{{}}]", a.0, ju(&a.1), b.0, ju(&b.1), a.2 != b.2);
        {close}'''

    def canon(self, r):
        return "true" if r else "false"


def main(tier):
    t0 = time.time()
    proof = common.proof_obligations("C02", modules=["EduceModel.Props.C02", "EduceModel.Props.E2E", "EduceModel.Props.Profile"])
    n_defs, cap_vals, cap_pairs = (160, 12, 150) if tier == "quick" else (1500, 27, 700)
    tie = b1.run_b1("C02", P(cap_pairs), n_defs, cap_vals, common.seed())
    return common.finish("C02", tier, t0, proof, tie)
