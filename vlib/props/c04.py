"""C04 — enum variants order by declared discriminant, never by memory layout."""
import time
from .. import common, gen, b1
from .c03 import pair_loop, supertrait_items, draw_ord_fields

NICHE = ["bool", "char", "NZ", "RefU8", "OptBox", "Inner", "Zst", "u8", "L"]
REPRS = [None, None, None, "u8", "i8", "u16", "i32", "u64", "isize", "i16", "u32", "i64", "usize", "i128", "u128", "C", "C, u8", "u8, align(4)", "align(8)", "align(2)", "align(2), u8", "align(4), i8"]
INT_RANGE = {"u8": (0, 255), "i8": (-128, 127), "u16": (0, 65535), "i32": (-2**31, 2**31 - 1),
             "u64": (0, 2**64 - 1), "isize": (-2**40, 2**40), "i16": (-2**15, 2**15 - 1), "u32": (0, 2**32 - 1), "i64": (-2**63, 2**63 - 1),
             "usize": (0, 2**64 - 1), "i128": (-2**100, 2**100), "u128": (0, 2**100)}


def spell_disc(rng, d, ri):
    """an expression of the enum's integer type whose value is d: operators binding weaker than `+`
    (the generated code adds offsets to it) and forms whose value depends on the type (`!K`)"""
    lo, hi = INT_RANGE.get(ri or "isize")
    unsigned = lo == 0
    forms = [None, None]
    if d > 0 and d % 2 == 0:
        tz = (d & -d).bit_length() - 1
        b = rng.randint(1, tz)
        forms.append("%d << %d" % (d >> b, b))
    if 0 <= d <= 127:
        forms.append("%d & 0x7f" % d)
        forms.append("%d | %d" % (d & ~1, d & 1))
        forms.append("%d ^ %d" % (d ^ 5, 5))
    if ri is not None and ri != "u64":
        maxv = {"u8": 255, "u16": 65535}.get(ri)
        if unsigned and maxv is not None and 0 <= maxv - d <= 40:
            forms += ["!%d" % (maxv - d)] * 3
        if not unsigned and -40 <= d < 0:
            forms += ["!%d" % (-d - 1)] * 2
    if ri is None and -40 <= d < 0:
        forms.append("!%d" % (-d - 1))
    if ri is not None:
        # expressions that carry the enum's integer type themselves: a suffixed literal, a byte literal, `T::MAX - k`
        forms.append(("%d%s" % (d, ri)) if d >= 0 else ("-%d%s" % (-d, ri)))
        if ri == "u8" and 33 <= d <= 126 and chr(d) not in "'\\":
            forms += ["b'%s'" % chr(d)] * 2
        realmax = {"u8": 255, "i8": 127, "u16": 65535, "i16": 32767, "i32": 2**31 - 1, "u32": 2**32 - 1, "i64": 2**63 - 1}.get(ri)
        if realmax is not None and 0 <= realmax - d <= 50:
            forms += ["%s::MAX - %d" % (ri, realmax - d)] * 2
    return rng.choice(forms)


def repr_int(r):
    if r is None:
        return None
    for part in [x.strip() for x in r.split(",")]:
        if part in INT_RANGE:
            return part
    return None


class P(b1.Plugin):
    ops = ("cmp", "pcmp", "cmpw", "pcmpw")
    driver_traits = (("ord", "Ord"),)
    rule = ("enum definitions with 1-4 variants over unit/tuple/named shapes, payload types with niches or zero size (bool, char, "
            "NonZeroU8, &u8, Option<Box<u8>>, nested enum, ZST, u8), #[repr] in {none,u8,i8,u16,i32,u64,isize,C,'C, u8','u8, align(4)','align(2), u8','align(4), i8',"
            "align(8),align(2)}, explicit discriminants incl. negative and >127/>32767 where the repr allows, written as literals or as expressions "
            "(`a << b`, `a & m`, `a | b`, `a ^ b`, the type-dependent `!k`, suffixed / byte literals and `T::MAX - k` of the repr type, named constants `K`, `K + 0`, `self::K`), the repr hints in one attribute or spread over several; all ordered value pairs, "
            "each comparison repeated with both operands embedded in #[repr(C)] wrappers with different trailing bytes (ops cmpw/pcmpw). "
            "distinct_nontrivial = definitions with >=2 variants or a payload, on which at least two different results were observed")

    def __init__(self, cap_pairs):
        self.cap_pairs = cap_pairs

    def make(self, rng, i):
        self.rng = rng
        mode = rng.choice(["ord", "partialord", "both"])
        td = gen.make_skeleton(rng, i, "enum", NICHE, max_fields=2, max_variants=4)
        if not td.variants:
            td = gen.make_skeleton(rng, i, "enum", NICHE, max_fields=2, max_variants=4)
        r = rng.choice(REPRS)
        long_enum = rng.random() < 0.04
        if long_enum:
            # more variants after an explicit discriminant than the repr type's positive range holds (the values themselves
            # stay in range): `#[repr(i8)] enum { V0 = -128, V1, .., V139 }`
            n = rng.randint(130, 180)
            td.variants = [gen.Variant("W%d" % k, "unit", []) for k in range(n)]
            r = rng.choice(["i8", "i8", "i8, align(2)"])
            td.variants[0].disc = -128
            td.variants[0].disc_src = None
            if rng.random() < 0.5:
                j = rng.randint(100, n - 2)
                td.variants[j].disc = -128 + j + rng.randint(0, 120 - (n - 128))   # a later explicit value that keeps the rest in range
                td.variants[j].disc_src = None
        all_unit = all(v.shape == "unit" for v in td.variants)
        if r is not None and not td.variants:
            r = None                                   # repr on a zero-variant enum is rejected by rustc
        if r == "C, u8" and all_unit:
            r = "u8"                                   # rustc: conflicting representation hints on a fieldless enum
        ri = repr_int(r)
        consts = []
        # explicit discriminants: legal on fieldless enums, or with a primitive repr
        if td.variants and (all_unit or ri) and rng.random() < 0.6 and not long_enum:
            lo, hi = INT_RANGE[ri] if ri else (-2**31, 2**31 - 1)
            cur = None
            used = set()
            for v in td.variants:
                if rng.random() < 0.6:
                    for _ in range(20):
                        d = rng.choice([rng.randint(max(lo, -5), min(hi, 5)), rng.randint(lo, hi), hi - rng.randint(0, 6), 200 if hi >= 200 else hi, 40000 if hi >= 40000 else hi])
                        if d not in used and d + len(td.variants) <= hi:
                            break
                    else:
                        continue
                    v.disc = d
                    v.disc_src = spell_disc(rng, d, ri)
                    if v.disc_src is None and rng.random() < 0.15:
                        # a named constant of the enum's integer type
                        cname = "K%d_%s" % (i, v.name)
                        consts.append("pub const %s: %s = %d;" % (cname, ri or "isize", d))
                        v.disc_src = rng.choice([cname, "%s + 0" % cname, "self::%s" % cname])
                    cur = d
                else:
                    cur = 0 if cur is None else cur + 1
                if cur in used or cur > hi:
                    # would be a duplicate / overflowing discriminant: give it a fresh explicit one
                    cur = max(used | {0}) + 1
                    if cur > hi:
                        v.disc = None
                        continue
                    v.disc = cur
                used.add(cur)
        if r is not None:
            parts = [x.strip() for x in r.split(",")]
            if len(parts) > 1 and rng.random() < 0.7:
                # the hints spread over several #[repr] attributes, in either order (the integer type more often in a later one)
                if (parts[0] in INT_RANGE) == (rng.random() < 0.7):
                    parts.reverse()
                    if "C" in parts and all_unit:
                        parts = [x for x in parts if x != "C"]
                for x in parts:
                    td.attr_src.append("#[repr(%s)]" % x)
            else:
                td.attr_src.append("#[repr(%s)]" % r)
        metas = {"ord": ["Ord"], "partialord": ["PartialOrd"], "both": ["Ord", "PartialOrd"]}[mode]
        rng.shuffle(metas)
        td.traits = [", ".join(metas)]
        td.extra_items = supertrait_items(td, mode) + consts
        td.extra_json = {"ordmode": mode}
        td.mode = mode
        draw_ord_fields(rng, td, mode, explicit_rank_p=0.2)
        td.own_discriminants = True
        gen.finalize_attrs(rng, td, [t for t in ("Debug",) if rng.random() < 0.3])
        # wrappers used by the neighbour-bytes repetition
        td.extra_items.append("#[repr(C)] pub struct W%d(pub %s, pub [u8; 16]);" % (td.id, td.name))
        return td

    def nontrivial(self, td):
        return len(td.variants) >= 2 or any(v.fields for v in td.variants)

    def observe(self, td, vals):
        lines = []
        w = "W%d" % td.id
        if td.mode in ("ord", "both"):
            lines.append(f'            println!("[\\"cmp\\",{td.id},{{}},{{}},{{}},{{}},\\"{{}}\\"]", a.0, ju(&a.1), b.0, ju(&b.1), ord3(Ord::cmp(&a.2, &b.2)));')
            lines.append(f'            println!("[\\"cmpw\\",{td.id},{{}},{{}},{{}},{{}},\\"{{}}\\"]", a.0, ju(&a.1), b.0, ju(&b.1), ord3(Ord::cmp(&wa.0, &wb.0)));')
        if td.mode in ("partialord", "both"):
            lines.append(f'            println!("[\\"pcmp\\",{td.id},{{}},{{}},{{}},{{}},\\"{{}}\\"]", a.0, ju(&a.1), b.0, ju(&b.1), oord3(PartialOrd::partial_cmp(&a.2, &b.2)));')
            lines.append(f'            println!("[\\"pcmpw\\",{td.id},{{}},{{}},{{}},{{}},\\"{{}}\\"]", a.0, ju(&a.1), b.0, ju(&b.1), oord3(PartialOrd::partial_cmp(&wa.0, &wb.0)));')
        pre = f'''            let wa = {w}(mk(a.0, &a.1), [0xff; 16]); let wb = {w}(mk(b.0, &b.1), [0x00; 16]);'''
        mk_arms = []
        for k, v in enumerate(td.variants):
            args = ["<%s as Leaf>::d(ids[%d])" % (f.ty, j) for j, f in enumerate(v.fields)]
            head = "%s::%s" % (td.name, v.name)
            if v.shape == "unit":
                e = head
            elif v.shape == "tuple":
                e = "%s(%s)" % (head, ", ".join(args))
            else:
                e = "%s { %s }" % (head, ", ".join("%s: %s" % (f.name, a) for f, a in zip(v.fields, args)))
            mk_arms.append("%d => %s," % (k, e))
        mk = "        let mk = |k: usize, ids: &Vec<usize>| -> %s { match k { %s _ => unreachable!() } };" % (td.name, " ".join(mk_arms))
        if not vals:
            return "        let _ = 0;"
        return mk + pair_loop(self, td, vals, pre + "\n" + "\n".join(lines))

    def canon(self, r):
        return r


def main(tier):
    t0 = time.time()
    proof = common.proof_obligations("C04", modules=["EduceModel.Props.C04", "EduceModel.Props.E2E", "EduceModel.Props.Profile"])
    n_defs, cap_vals, cap_pairs = (200, 6, 150) if tier == "quick" else (2000, 9, 500)
    tie = b1.run_b1("C04", P(cap_pairs), n_defs, cap_vals, common.seed())
    return common.finish("C04", tier, t0, proof, tie)
