"""C07 — Clone and clone_from reproduce the source value field by field."""
import time
from .. import common, gen, b1
from .c03 import pair_loop


def fp_fn(td):
    """`fn fp(x: &T) -> (usize, Vec<usize>)`: variant index and leaf ids of a value."""
    arms = []
    for k, v in enumerate(td.variants):
        head = td.name if td.kind == "struct" else "%s::%s" % (td.name, v.name)
        names = ["f%d" % j for j in range(len(v.fields))]
        ids = "vec![%s]" % ", ".join("Leaf::id(%s)" % n for n in names)
        if v.shape == "unit":
            arms.append("%s => (%d, vec![])," % (head, k))
        elif v.shape == "tuple":
            arms.append("%s(%s) => (%d, %s)," % (head, ", ".join(names), k, ids))
        else:
            arms.append("%s { %s } => (%d, %s)," % (head, ", ".join("%s: %s" % (f.name, n) for f, n in zip(v.fields, names)), k, ids))
    if not arms:
        return "fn fp(x: &%s) -> (usize, Vec<usize>) { match *x {} }" % td.name
    return "fn fp(x: &%s) -> (usize, Vec<usize>) { match x { %s } }" % (td.name, " ".join(arms))


class P(b1.Plugin):
    ops = ("clone", "clonefrom")
    driver_traits = (("clone", "Clone"),)
    rule = ("struct/enum definitions with 0-4 fields of leaf types K (instrumented: clone and clone_from observably different, "
            "calls counted), L, S, F; per field an optional custom clone method; with and without Copy educed (Copy: L/F only; "
            "methods with Copy only on enums); clone() on every value and a.clone_from(&b) on all or sampled ordered pairs incl. "
            "cross-variant pairs; result observed field by field plus the number of calls on instrumented fields. "
            "distinct_nontrivial = definitions with >=1 field on which at least two different results were observed")

    def __init__(self, cap_pairs):
        self.cap_pairs = cap_pairs

    def make(self, rng, i):
        self.rng = rng
        kind = rng.choice(["struct", "enum", "enum"])
        copy = rng.random() < 0.3
        leaves = ["L", "F", "L"] if copy else ["K", "K", "L", "S", "F"]
        td = gen.make_skeleton(rng, i, kind, leaves)
        metas = ["Clone"] + (["Copy"] if copy else [])
        rng.shuffle(metas)
        td.traits = [", ".join(metas)] if rng.random() < 0.5 else metas
        td.extra_json = {"copy": copy}
        for v in td.variants:
            for f in v.fields:
                req = {"method": None}
                allow_method = (not copy) or kind == "enum"
                if allow_method and rng.random() < (0.15 if copy else 0.35):
                    req["method"] = gen.METHOD_LEAVES.index(f.ty)
                f.req["Clone"] = req
                f.metas = []
                if req["method"] is not None:
                    f.metas = ["Clone(%s)" % gen.spell_path_param(rng, "method", "clone_m_%s" % f.ty)]
        noise = [] if copy else [t for t in ("Debug", "PartialEq") if rng.random() < 0.3]
        td.type_spelling = True
        gen.finalize_attrs(rng, td, noise)
        td.extra_items = [fp_fn(td)]
        return td

    def nontrivial(self, td):
        return any(v.fields for v in td.variants)

    def observe(self, td, vals):
        if not vals:
            return "        let _ = 0;"
        items = ", ".join("(%d, vec!%s, %s)" % (k, ids, td.value_expr(k, ids)) for k, ids in vals)
        mk_arms = []
        for k, v in enumerate(td.variants):
            args = ["<%s as Leaf>::d(ids[%d])" % (f.ty, j) for j, f in enumerate(v.fields)]
            head = td.name if td.kind == "struct" else "%s::%s" % (td.name, v.name)
            if v.shape == "unit":
                e = head
            elif v.shape == "tuple":
                e = "%s(%s)" % (head, ", ".join(args))
            else:
                e = "%s { %s }" % (head, ", ".join("%s: %s" % (f.name, a) for f, a in zip(v.fields, args)))
            mk_arms.append("%d => %s," % (k, e))
        mk = "        let mk = |k: usize, ids: &Vec<usize>| -> %s { match k { %s _ => unreachable!() } };" % (td.name, " ".join(mk_arms))
        one = f'''
        {{ let vs: Vec<(usize, Vec<usize>, {td.name})> = vec![{items}];
        for a in vs.iter() {{ calls_reset(); let c = Clone::clone(&a.2); let n = calls(); let r = fp(&c);
            println!("[\\"clone\\",{td.id},{{}},{{}},[{{}},{{}},{{}}]]", a.0, ju(&a.1), r.0, ju(&r.1), n); }} }}'''
        body = f'''            let mut x = mk(a.0, &a.1); calls_reset(); Clone::clone_from(&mut x, &b.2); let n = calls(); let r = fp(&x);
            println!("[\\"clonefrom\\",{td.id},{{}},{{}},{{}},{{}},[{{}},{{}},{{}}]]", a.0, ju(&a.1), b.0, ju(&b.1), r.0, ju(&r.1), n);'''
        return mk + one + pair_loop(self, td, vals, body)

    def canon(self, r):
        return r


def main(tier):
    t0 = time.time()
    proof = common.proof_obligations("C07")
    n_defs, cap_vals, cap_pairs = (200, 10, 120) if tier == "quick" else (2000, 30, 600)
    tie = b1.run_b1("C07", P(cap_pairs), n_defs, cap_vals, common.seed())
    return common.finish("C07", tier, t0, proof, tie)
