"""C07 — Clone and clone_from reproduce the source value field by field."""
import os, time
from .. import common, gen, b1
from .c03 import pair_loop


def fp_fn(td):
    """`fn fp(x: &T) -> (usize, Vec<usize>)`: variant index and leaf ids of a value."""
    arms = []
    for k, v in enumerate(td.variants):
        head = td.name if td.kind == "struct" else "%s::%s" % (td.name, v.name)
        names = ["f%d" % j for j in range(len(v.fields))]
        ids = "vec![%s]" % ", ".join("Leaf::id(%s)" % n for n in names)
        if v.shape == "unit":
            arms.append("%s => (%d, vec![])," % (head, k))
        elif v.shape == "tuple":
            arms.append("%s(%s) => (%d, %s)," % (head, ", ".join(names), k, ids))
        else:
            arms.append("%s { %s } => (%d, %s)," % (head, ", ".join("%s: %s" % (f.name, n) for f, n in zip(v.fields, names)), k, ids))
    if not arms:
        return "fn fp(x: &%s) -> (usize, Vec<usize>) { match *x {} }" % td.name
    return "fn fp(x: &%s) -> (usize, Vec<usize>) { match x { %s } }" % (td.name, " ".join(arms))


class P(b1.Plugin):
    ops = ("clone", "clonefrom")
    driver_traits = (("clone", "Clone"),)
    rule = ("struct/enum definitions with 0-4 fields of leaf types K (instrumented: clone and clone_from observably different, "
            "calls counted), L, S, F; per field an optional custom clone method; with and without Copy educed (Copy: L, F and KC - Copy with an instrumented, non-bitwise Clone; "
            "methods with Copy only on enums); clone() on every value and a.clone_from(&b) on all or sampled ordered pairs incl. "
            "cross-variant pairs; result observed field by field plus the number of calls on instrumented fields. "
            "distinct_nontrivial = definitions with >=1 field on which at least two different results were observed")

    def __init__(self, cap_pairs):
        self.cap_pairs = cap_pairs

    def make(self, rng, i):
        self.rng = rng
        kind = rng.choice(["struct", "enum", "enum"])
        copy = rng.random() < 0.3
        leaves = ["L", "F", "L", "KC", "KC", "PD"] if copy else ["K", "K", "L", "S", "F", "PD"]
        td = gen.make_skeleton(rng, i, kind, leaves)
        metas = ["Clone"] + (["Copy"] if copy else [])
        rng.shuffle(metas)
        td.traits = [", ".join(metas)] if rng.random() < 0.5 else metas
        td.extra_json = {"copy": copy}
        for v in td.variants:
            for f in v.fields:
                req = {"method": None}
                allow_method = (not copy) or kind == "enum"
                if allow_method and f.ty in gen.METHOD_LEAVES and rng.random() < (0.25 if copy else 0.35):
                    req["method"] = gen.METHOD_LEAVES.index(f.ty)
                f.req["Clone"] = req
                f.metas = []
                if req["method"] is not None:
                    f.metas = ["Clone(%s)" % gen.spell_path_param(rng, "method", "clone_m_%s" % f.ty)]
        noise = [] if copy else [t for t in ("Debug", "PartialEq") if rng.random() < 0.3]
        td.type_spelling = True
        gen.finalize_attrs(rng, td, noise)
        td.extra_items = [fp_fn(td)]
        return td

    def nontrivial(self, td):
        return any(v.fields for v in td.variants)

    def observe(self, td, vals):
        if not vals:
            return "        let _ = 0;"
        items = ", ".join("(%d, vec!%s, %s)" % (k, ids, td.value_expr(k, ids)) for k, ids in vals)
        mk_arms = []
        for k, v in enumerate(td.variants):
            args = ["<%s as Leaf>::d(ids[%d])" % (f.ty, j) for j, f in enumerate(v.fields)]
            head = td.name if td.kind == "struct" else "%s::%s" % (td.name, v.name)
            if v.shape == "unit":
                e = head
            elif v.shape == "tuple":
                e = "%s(%s)" % (head, ", ".join(args))
            else:
                e = "%s { %s }" % (head, ", ".join("%s: %s" % (f.name, a) for f, a in zip(v.fields, args)))
            mk_arms.append("%d => %s," % (k, e))
        mk = "        let mk = |k: usize, ids: &Vec<usize>| -> %s { match k { %s _ => unreachable!() } };" % (td.name, " ".join(mk_arms))
        one = f'''
        {{ let vs: Vec<(usize, Vec<usize>, {td.name})> = vec![{items}];
        for a in vs.iter() {{ calls_reset(); let c = Clone::clone(&a.2); let n = calls(); let r = fp(&c);
            println!("[\\"clone\\",{td.id},{{}},{{}},[{{}},{{}},{{}}]]", a.0, ju(&a.1), r.0, ju(&r.1), n); }} }}'''
        body = f'''            let mut x = mk(a.0, &a.1); calls_reset(); Clone::clone_from(&mut x, &b.2); let n = calls(); let r = fp(&x);
            println!("[\\"clonefrom\\",{td.id},{{}},{{}},{{}},{{}},[{{}},{{}},{{}}]]", a.0, ju(&a.1), b.0, ju(&b.1), r.0, ju(&r.1), n);'''
        return mk + one + pair_loop(self, td, vals, body)

    def canon(self, r):
        return r


GENERIC_COPY = [
    "#[educe(Clone, Copy)] pub enum E%d<T> { A(T), B { x: T, y: u8 }, C }",
    "#[educe(Copy, Clone)] pub enum E%d<T> { A(#[educe(Clone(method(crate::m_clone)))] T), B(u8) }",
    "#[educe(Clone(bound(*)), Copy)] pub enum E%d<T, U> { A(#[educe(Clone(method(crate::m_clone)))] T, U), B }",
    "#[educe(Copy, Clone(bound(*)))] pub enum E%d<T, const N: usize> { A([T; N]), B { #[educe(Clone(method = crate::m_clone))] x: T } }",
    "#[educe(Clone, Copy)] pub struct E%d<'a, T, U>(pub &'a T, pub U, pub ::core::marker::PhantomData<T>);",
    "#[educe(Clone(bound(*)), Copy)] pub struct E%d<T, U>(pub T, pub Option<U>);",
    "#[educe(Clone, Copy)] pub union E%d<T: Copy> { pub a: T, pub b: [u8; 4] }",
    "#[educe(Copy, Clone(bound(*)))] pub union E%d<T> where T: Copy { pub a: T, pub b: u8 }",
]


def generic_copy_tie(tie):
    """`When Copy is educed as well the type is Copy`: generic definitions (custom clone methods, bound(*)) must compile,
    and values of an instantiation with Copy arguments must be usable after a move"""
    from . import c01
    so = common.build_proc_macro()
    work = common.scratch("C07g")
    lines = ["#![allow(warnings)]", "use educe::Educe;", "pub fn m_clone<X>(x: &X) -> X { unsafe { ::core::ptr::read(x) } }", "fn is_copy<X: Copy>() {}"]
    line_map, by_id = [], {}
    for i, t in enumerate(GENERIC_COPY):
        src = "#[derive(Educe)]\n" + (t % i)
        args = "u8, u8" if "<T, U>" in t or "'a, T, U" in t else ("u8, 2" if "const N" in t else "u8")
        args = ("'static, " + args) if "'a" in t else args
        text = "pub mod g%d { use educe::Educe;\n%s\npub fn probe() { super::is_copy::<E%d<%s>>(); }\n}" % (i, src, i, args)
        start = sum(x.count("\n") + 1 for x in lines) + 1
        lines.append(text)
        line_map.append((start, start + text.count("\n"), i))
        by_id[i] = src
    path = os.path.join(work, "generic_copy.rs")
    open(path, "w").write("\n".join(lines) + "\n")
    rc, diags = c01.compile_lib(path, so)
    import collections
    hist = collections.Counter()
    c01.judge([d for d in diags if d["level"] == "error"], line_map, by_id, "generic Copy definitions", tie, hist)
    tie["evaluations"] += len(GENERIC_COPY)
    tie["extra"]["generic_copy_definitions"] = len(GENERIC_COPY)
    import shutil
    shutil.rmtree(work, ignore_errors=True)


def main(tier):
    t0 = time.time()
    proof = common.proof_obligations("C07", modules=["EduceModel.Props.C07", "EduceModel.Props.E2E", "EduceModel.Props.Profile"])
    n_defs, cap_vals, cap_pairs = (200, 10, 120) if tier == "quick" else (2000, 30, 600)
    tie = b1.run_b1("C07", P(cap_pairs), n_defs, cap_vals, common.seed())
    try:
        generic_copy_tie(tie)
    except (common.BuildError, OSError) as e:
        tie["broken"].append("harness: " + str(e)[:300])
    return common.finish("C07", tier, t0, proof, tie)
