"""C16 — expansion is deterministic."""
import json, os, random, re, subprocess, time
from .. import common, attr, gen


def into_heavy(rng, i):
    """Definitions with 2-4 Into targets (the only place where map iteration order can show)."""
    tys = ["u8", "u16", "u32", "u64", "String", "&'static str", "i8", "Vec<u8>"]
    targets = rng.sample(tys, rng.randint(2, 4))
    fields = ", ".join("#[educe(%s)] pub f%d: u8" % (", ".join("Into(%s, method(m))" % t for t in targets) if j == 0 else "Debug(ignore)", j)
                       for j in range(rng.randint(1, 3)))
    metas = ["Into(%s)" % t for t in targets] + (["Debug"] if "Debug(ignore)" in fields else [])
    rng.shuffle(metas)
    if rng.random() < 0.5:
        attrs = "#[educe(%s)]" % ", ".join(metas)
    else:
        attrs = "\n".join("#[educe(%s)]" % m for m in metas)
    return "#[derive(Educe)]\n%s\npub struct I%d { %s }" % (attrs, i, fields)


def compound_offence(rng, i):
    """Refused definitions with several independent offences (different traits given twice, unknown traits, offending field
    attributes): the diagnostic that is reported must not depend on the iteration order of a map either."""
    ts = rng.sample(["Debug", "Clone", "PartialEq", "Hash", "Default", "PartialOrd"], rng.randint(2, 4))
    metas = []
    for t in ts:
        metas += [t, t] if rng.random() < 0.8 else [t]
    if rng.random() < 0.3:
        metas.append(rng.choice(["Nope", "Debug2", "serde"]))
    rng.shuffle(metas)
    if rng.random() < 0.5:
        attrs = "#[educe(%s)]" % ", ".join(metas)
    else:
        attrs = "\n".join("#[educe(%s)]" % m for m in metas)
    fa = rng.choice(["", "", "#[educe(%s(ignore), %s(ignore))] " % (ts[0], ts[0]), "#[educe(Eq)] ", "#[educe(%s(nope))] " % ts[-1]])
    return "#[derive(Educe)]\n%s\npub struct X%d { %spub f: u8, pub g: u8 }" % (attrs, i, fa)


def main(tier):
    t0 = time.time()
    proof = common.proof_obligations("C16")
    rng = random.Random(common.seed())
    n_valid, n_into, procs, repeat = (150, 60, 4, 4) if tier == "quick" else (1500, 500, 12, 8)
    tie = {"evaluations": 0, "distinct_nontrivial": 0, "failing": [], "broken": [], "broken_details": [], "known": [], "samples": [], "extra": {}}
    try:
        cases = [(i, s) for i, s, _ in attr.valid_pool(rng, n_valid)]
        cases += [(10000 + i, into_heavy(rng, i)) for i in range(n_into)]
        from .. import offences
        off = [src for _, _, src in offences.generate()]
        orng = random.Random(common.seed() + 7)
        cases += [(20000 + i, s) for i, s in enumerate(orng.sample(off, min(len(off), n_into * 3)))]
        cases += [(30000 + i, compound_offence(orng, i)) for i in range(n_into)]
        # the same definitions once more, all of them called `Same`: state kept between expansions under the name of a type
        # (a cache of something read from the attributes) shows when other processes meet them in another order
        same = []
        for i, s in cases[:n_valid]:
            m = re.search(r"\b(?:struct|enum|union)\s+(T\d+)\b", s)
            if m and len(same) < n_into:
                same.append((40000 + i, re.sub(r"\b%s\b" % m.group(1), "Same", s)))
        cases += same
        # definitions whose generic parameters use the names the generated code picks for itself (`H`, `Educe__DebugField`):
        # the name it falls back to has to be a function of the input, not of what was expanded before
        from . import c19
        cases += c19.picked_name_defs(orng, n_into, start=50000)[0]
        runs = [attr.expand_real(cases, repeat=repeat)]
        for k in range(procs - 1):
            # a fresh process (fresh hash seeds) that meets the inputs in another order: what was expanded before differs
            order = list(cases)
            random.Random(common.seed() * 1000 + k).shuffle(order)
            if k == 0:
                order = list(reversed(cases))
            runs.append(attr.expand_real(order))
        model = attr.expand_model(runs[0])
    except (common.BuildError, RuntimeError) as e:
        tie["broken"].append("B3: " + str(e)[:500])
        return common.finish("C16", tier, t0, proof, tie)
    src = dict(cases)
    refused = 0
    for i, s in cases:
        outs = set()
        for r in runs:
            x = r[i]
            outs.add(json.dumps([x["outcome"], x.get("tokens"), x.get("message")]))
        tie["evaluations"] += len(runs) + repeat
        same_in_process = runs[0][i].get("repeat_same", True)
        if len(outs) > 1 or not same_in_process:
            toks = sorted({r[i].get("tokens") or r[i].get("message") or "" for r in runs})
            tie["failing"].append({"what": "the same input expanded to different token streams (%s)" %
                                   ("within one process" if not same_in_process else "in different processes"),
                                   "rust_source": s, "observed": [t[:400] for t in toks[:3]],
                                   "expected_spec": "one token stream", "processes": len(runs), "repeats_in_process": repeat})
            continue
        bad = attr.compare(runs[0][i], model[i]) if i in model else ["no model result"]
        if bad:
            tie["broken"].append("B3: model and implementation disagree on %s" % bad[0][:200])
            tie["broken_details"].append({"rust_source": s, "disagreement": bad})
        if runs[0][i]["outcome"] == "ok" and len(runs[0][i]["items"]) >= 2:
            tie["distinct_nontrivial"] += 1
        if runs[0][i]["outcome"] != "ok":
            refused += 1
    # the real proc-macro under rustc: the same crate expanded in several compiler processes
    try:
        import os
        from . import c18
        so = common.build_proc_macro()
        work = common.scratch("C16")
        sample = [(i, (s.replace("#[derive(Educe)]\n", "").replace("#[derive(Educe)]", ""), None)) for i, s in cases if runs[0][i]["outcome"] == "ok"]
        sample = sample[:: max(1, len(sample) // (60 if tier == "quick" else 600))]
        n_rustc = 3 if tier == "quick" else 8
        outs = [c18.expand_with(so, sample, work, "p%d" % k)[0] for k in range(n_rustc)]
        for i, _ in sample:
            tie["evaluations"] += n_rustc
            texts = {o.get(i) for o in outs}
            if len(texts) > 1:
                tie["failing"].append({"what": "rustc processes print different expansions of the same derive input (real proc-macro)",
                                       "rust_source": src[i], "observed": sorted(t or "<none>" for t in texts)[0][:600], "expected_spec": "one expansion",
                                       "processes": n_rustc})
        tie["extra"]["rustc_processes"] = n_rustc
        tie["extra"]["rustc_inputs"] = len(sample)
        import shutil
        shutil.rmtree(work, ignore_errors=True)
    except (common.BuildError, OSError) as e:
        tie["broken"].append("B3: rustc expansion run failed: " + str(e)[:300])
    tie["failing"] = tie["failing"][:4]
    tie["broken"] = tie["broken"][:3]
    tie["rule"] = ("valid definitions of every trait (pool of the behavioural generators) plus definitions with 2-4 Into targets, plus refused definitions (a sample of the offence clauses of C13 and definitions with "
                   "several independent offences, e.g. two or more different traits each given twice: the diagnostic must be the same one every time), plus "
                   "a copy of part of the valid pool in which every type is called `Same` (state kept between expansions under a type's name) and "
                   "definitions whose generic parameters are called `H`, `H_`, `Educe__DebugField`, ... (the fallback names the generated code picks); each "
                   "expanded %d times in one process and once in each of %d further processes (fresh hash seeds, the inputs met in reversed / shuffled order so that earlier expansions differ); all token streams "
                   "and diagnostics must coincide, and the impl order must be the model's; a sample of the accepted inputs is also expanded by the real proc-macro in several rustc "
                   "processes (-Zunpretty=expanded) and the printed expansions compared. distinct_nontrivial = inputs with >=2 impl items" % (repeat + 1, procs - 1))
    tie["samples"] = [{"rust_source": s, "tokens": (runs[0][i].get("tokens") or "")[:300]} for i, s in cases[-2:]]
    tie["extra"]["processes"] = procs
    tie["extra"]["refused_inputs"] = refused
    return common.finish("C16", tier, t0, proof, tie)
