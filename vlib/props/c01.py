"""C01 — every accepted derive request expands to code that compiles (and documented forms are accepted)."""
import collections, json, os, random, re, subprocess, time
from concurrent.futures import ThreadPoolExecutor
from .. import common, gen, attr

# lints that concern the harness's own items (types never used, helper imports), not the generated impls
BENIGN_LINTS = {"dead_code", "unused_imports", "unused_parens", "non_camel_case_types", "non_snake_case", "non_upper_case_globals", "unused_macros"}


def plugin_pools(rng, per_plugin):
    from . import c02, c03, c04, c05, c06, c07, c08, c09, c10, c20
    plugins = [("PartialEq/Eq", c02.P(100)), ("Ord/PartialOrd", c03.P(100)), ("enum order/repr", c04.P(100)), ("Hash", c05.P(100)),
               ("Debug", c06.P()), ("Clone/Copy", c07.P(100)), ("Default", c08.P()), ("Deref/DerefMut", c09.P()), ("Into", c10.P()),
               ("union", c20.P())]
    out = []
    shared = []        # Debug definitions without companion items: also compiled several to a module (see below)
    for label, p in plugins:
        defs = []
        # Debug has by far the most shape x attribute branches
        for i in range(per_plugin * (3 if label == "Debug" else 1)):
            td = p.make(random.Random(rng.random()), i)
            defs.append((i, td.render()))
            if label == "Debug" and not td.extra_items:
                shared.append(td.render())
        out.append((label, p, defs))
    plugin_pools.shared = shared
    return out


# ---- generic, well-typed definitions (lifetimes, type and const parameters, where-clauses, raw identifiers, repr)
FIELD_NAMES = ["a", "b", "r#type", "c", "r#match", "d"]
VARIANTS = ["A", "B", "C", "D"]


METHODS = '''
pub fn m_clone<X>(x: &X) -> X { unsafe { ::core::ptr::read(x) } }
pub fn m_eq<X>(_a: &X, _b: &X) -> bool { true }
pub fn m_hash<X, S: ::core::hash::Hasher>(_x: &X, s: &mut S) { s.write_u8(1) }
pub fn m_dbg<X>(_x: &X, f: &mut ::core::fmt::Formatter<'_>) -> ::core::fmt::Result { f.write_str("m") }
pub fn m_cmp<X>(_a: &X, _b: &X) -> ::core::cmp::Ordering { ::core::cmp::Ordering::Equal }
pub fn m_pcmp<X>(_a: &X, _b: &X) -> ::core::option::Option<::core::cmp::Ordering> { ::core::option::Option::None }
'''


def make_generic(rng, i):
    kind = rng.choice(["struct", "struct", "enum", "enum", "enum1", "empty"])
    lt = rng.random() < 0.4
    tps = ["T"] + (["U"] if rng.random() < 0.4 else [])
    cn = rng.random() < 0.4
    traits = set(rng.sample(["Debug", "Clone", "PartialEq", "Eq", "PartialOrd", "Ord", "Hash", "Default"], rng.randint(1, 6)))
    if "Ord" in traits:
        traits |= {"Eq", "PartialOrd"}
    if traits & {"Eq", "PartialOrd"}:
        traits.add("PartialEq")
    if kind == "empty":
        traits -= {"Default"}
        if not traits:
            traits = {"Clone"}
        name = "G%d" % i
        rep = rng.choice(["", "", ""])
        order = sorted(traits, key=lambda t: rng.random())
        # Debug on an enum prints variant names only; with no variant a type name has to be asked for (refused otherwise, by design)
        order = [("Debug(name = true)" if rng.random() < 0.5 else "Debug(name = Shown)") if t == "Debug" else t for t in order]
        return "#[derive(Educe)]\n#[educe(%s)]\n%spub enum %s {}" % (", ".join(order), rep, name), {"kind": "empty-enum", "traits": sorted(traits)}
    wkind = rng.choice([None, None, "T: Sized", "T: ::core::fmt::Display", "T: ::core::iter::Iterator"])
    pool = ["T", "Option<T>", "u8", "(T, u8)", "Vec<T>", "Box<T>", "::core::marker::PhantomData<T>"]
    if wkind == "T: ::core::iter::Iterator":
        pool += ["T::Item", "Option<T::Item>"]
    if len(tps) > 1:
        pool += ["U", "::core::marker::PhantomData<U>", "Option<U>"]
    if cn:
        pool += ["[T; N]", "[u8; N]"]
    if lt:
        pool += ["&'a T", "&'a u8"]
    if "Default" in traits:
        pool = [t for t in pool if not t.startswith("&") and not t.startswith("[")]
    copyable = rng.random() < 0.3 and "Clone" in traits
    if copyable:
        pool = [t for t in pool if "Vec" not in t and "Box" not in t]
        traits.add("Copy")

    # type-level Debug parameter, chosen first: field renames need named fields
    dbg_type = None
    if "Debug" in traits and rng.random() < 0.2:
        dbg_type = rng.choice(["Debug(name = Shown)"] + (["Debug(named_field = true)", "Debug(named_field = false)"] if kind == "struct" else []))

    def fields(shape, n, default_ok=True):
        fs = []
        for j in range(n):
            ty = rng.choice(pool)
            metas = []
            for t in sorted(traits & {"Debug", "PartialEq", "Hash"}):
                if rng.random() < 0.2:
                    metas.append("%s(ignore)" % t)
            if "Ord" in traits and rng.random() < 0.2:
                metas.append("Ord(ignore)" if rng.random() < 0.5 else "Ord(rank = %d)" % (10 + j))
            elif "PartialOrd" in traits and "Ord" not in traits and rng.random() < 0.2:
                metas.append("PartialOrd(ignore)" if rng.random() < 0.5 else "PartialOrd(rank = %d)" % (10 + j))
            # custom methods (bound-free helpers of the crate root)
            for t, fn in (("Clone", "m_clone"), ("PartialEq", "m_eq"), ("Hash", "m_hash"), ("Debug", "m_dbg")):
                if t in traits and rng.random() < 0.12 and not any(m.startswith(t + "(") for m in metas) and not (t == "Clone" and copyable and kind == "struct"):
                    metas.append(rng.choice(["%s(method(crate::%s))", "%s(method = crate::%s)"]) % (t, fn))
            if "Ord" in traits and rng.random() < 0.1 and not any(m.startswith("Ord(") for m in metas):
                metas.append("Ord(method(crate::m_cmp))")
            elif "PartialOrd" in traits and "Ord" not in traits and rng.random() < 0.1 and not any(m.startswith("PartialOrd(") for m in metas):
                metas.append("PartialOrd(method(crate::m_pcmp))")
            if "Debug" in traits and shape == "named" and dbg_type != "Debug(named_field = false)" and rng.random() < 0.15 and not any(m.startswith("Debug") for m in metas):
                metas.append("Debug(name = Renamed%d)" % j)
            at = "".join("#[educe(%s)] " % m for m in metas) if rng.random() < 0.5 or not metas else "#[educe(%s)] " % ", ".join(metas)
            fs.append((at, FIELD_NAMES[j], ty))
        return fs

    def render_fields(shape, fs, vis=""):
        # field types are bracketed by \x01 .. \x02 so that the compile pool can pass them through `$t:ty` macro fragments
        if shape == "unit":
            return ""
        # (likewise \x03 .. \x04 around the names of named fields, \x05 .. \x06 around the visibility of a field without attributes:
        #  through `$f:ident` / `$p:vis` fragments the first token of such a field comes from the macro invocation)
        def v(a):
            return ("\x05%s\x06" % vis.strip() + " ") if (vis and not a.strip()) else vis
        if shape == "tuple":
            return "(%s)" % ", ".join("%s%s\x01%s\x02" % (a, v(a), ty) for a, _, ty in fs)
        return " { %s }" % ", ".join("%s%s\x03%s\x04: \x01%s\x02" % (a, v(a), n, ty) for a, n, ty in fs)

    used = set()

    def note(fs):
        for _, _, ty in fs:
            for p in ["T", "U", "N", "'a"]:
                if p in ty.replace("PhantomData", ""):
                    used.add(p)
            if "PhantomData<T>" in ty:
                used.add("T")
            if "PhantomData<U>" in ty:
                used.add("U")

    tattr = []
    body = ""
    if kind == "struct":
        shape = rng.choice(["named", "tuple", "tuple", "named", "unit"])
        fs = fields(shape, 0 if shape == "unit" else rng.randint(1, 5))
        note(fs)
        body = render_fields(shape, fs, "pub ")
        meta = {"kind": "struct/" + shape}
    else:
        nv = 1 if kind == "enum1" else rng.randint(2, 4)
        vs = []
        dflt = rng.randrange(nv)
        all_unit = True
        for k in range(nv):
            shape = rng.choice(["unit", "tuple", "named"])
            fs = fields(shape, 0 if shape == "unit" else rng.randint(1, 3))
            note(fs)
            all_unit &= shape == "unit"
            va = ""
            if "Default" in traits and k == dflt and (nv > 1 or rng.random() < 0.5):
                va = "#[educe(Default)] "
            if "Debug" in traits and rng.random() < 0.15:
                va += "#[educe(Debug(name = V%d))] " % k
            vs.append((va, VARIANTS[k], shape, fs))
        rep = ""
        if all_unit and rng.random() < 0.5:
            rep = rng.choice(["#[repr(u8)]\n", "#[repr(i16)]\n", "#[repr(u8, align(4))]\n", "#[repr(C)]\n"])
            vs = [(va, "%s" % n, sh, fs) for va, n, sh, fs in vs]
            body = " { %s }" % ", ".join("%s%s%s" % (va, n, " = %d" % (k * 3 + 1) if rng.random() < 0.5 else "") for k, (va, n, sh, fs) in enumerate(vs))
        else:
            if rng.random() < 0.2:
                rep = rng.choice(["#[repr(align(8))]\n", "#[repr(C)]\n", "#[repr(u8)]\n", "#[repr(C, u8)]\n"]) if not all_unit else "#[repr(align(8))]\n"
            body = " { %s }" % ", ".join("%s%s%s" % (va, n, render_fields(sh, fs)) for va, n, sh, fs in vs)
        tattr.append(rep)
        meta = {"kind": "enum/%d" % nv}
    # declare exactly the parameters that are used (an unused parameter is the user's error, E0392)
    params = []
    if "'a" in used:
        params.append("'a")
    for p in tps:
        if p in used:
            params.append(p + rng.choice(["", "", ": Sized"]))
    if "N" in used:
        params.append("const N: usize")
    where = (" where " + wkind) if ("T" in used and wkind) else ""
    if "'a" in used and "T" in used:
        where = (where + ", " if where else " where ") + "T: 'a"
    if where and rng.random() < 0.3:
        where += ","                       # a trailing comma, as rustfmt writes a multi-line where-clause
    elif not where and rng.random() < 0.05:
        where = " where"                   # a bare `where` without predicates (legal)
    g = "<%s>" % ", ".join(params) if params else ""
    order = sorted(traits, key=lambda t: rng.random())
    if dbg_type:
        order[order.index("Debug")] = dbg_type
    if "Default" in traits and kind == "struct" and rng.random() < 0.3:
        order[order.index("Default")] = "Default(new)"
    if wkind != "T: ::core::iter::Iterator":
        # `bound(*)`: every type parameter instead of every delegated field type (enough for the palette's types)
        order = [t + "(bound(*))" if (t in ("Debug", "Clone", "PartialEq", "Hash", "Ord") + (("PartialOrd",) if "Ord" not in traits else ()) and rng.random() < 0.12) else t for t in order]
    ta = "#[educe(%s)]\n" % ", ".join(order) if rng.random() < 0.6 else "".join("#[educe(%s)]\n" % t for t in order)
    kw = "struct" if kind == "struct" else "enum"
    tail = ";" if kind == "struct" and not body.startswith(" {") else ""
    if kind == "struct" and tail and where:
        src = "#[derive(Educe)]\n%s%spub %s G%d%s%s%s;" % (ta, "".join(tattr), kw, i, g, body, where)
    else:
        src = "#[derive(Educe)]\n%s%spub %s G%d%s%s%s%s" % (ta, "".join(tattr), kw, i, g, where, body, tail)
    renamed = False
    if rng.random() < 0.3:
        # parameters called like the generic parameters the generated code introduces itself (the hasher `H` of `fn hash`,
        # `V` / `M` of the Debug helper struct): a type, a const and a second type parameter
        import re as _re
        names = rng.sample(["H", "V", "M", "H_", "F"], 3)
        if rng.random() < 0.5 and "H" not in names[:2]:
            names[2] = "H"                     # the const parameter
        for old_name, new_name in zip(["T", "U", "N"], names):
            src = _re.sub(r"(?<![A-Za-z0-9_:#'])%s(?![A-Za-z0-9_])" % old_name, new_name, src)
        renamed = True
    meta.update({"traits": sorted(traits), "lifetimes": int("'a" in used), "type_params": len([p for p in tps if p in used]), "consts": int("N" in used),
                 "where": bool(where), "raw_ident": "r#" in src, "repr": "#[repr" in src, "params_named_like_generated_generics": renamed})
    return src, meta


def make_access(rng, i):
    """Deref / DerefMut / Into on generic structs and enums (plus Debug / Clone), well-typed by construction"""
    kind = rng.choice(["struct", "enum"])
    lt = rng.random() < 0.3
    cn = rng.random() < 0.3
    target = rng.choice(["T", "u8", "Vec<T>", "Option<T>"])           # the Deref target: the same type in every variant
    with_mut = rng.random() < 0.5
    with_deref = rng.random() < 0.75
    into_t = rng.choice([None, "u8", "Vec<u8>", "u16"])
    if not with_deref and not into_t:
        into_t = "u8"
    others = ["u8", "u16", "Option<T>", "::core::marker::PhantomData<T>", "Box<T>"] + (["&'a T"] if lt else []) + (["[u8; N]"] if cn else [])
    extra = [t for t in ("Debug", "Clone") if rng.random() < 0.4]

    def variant(shape, n):
        fs = []
        d = rng.randrange(n)
        for j in range(n):
            ty = target if (j == d and with_deref) else rng.choice(others)
            ms = []
            if with_deref and j == d and (n > 1 or rng.random() < 0.5):
                ms.append("Deref")
                if with_mut:
                    ms.append("DerefMut")
            fs.append([ms, FIELD_NAMES[j], ty])
        if into_t:
            # a field of the target type, marked when it is not the only candidate
            k = rng.randrange(n)
            if not (with_deref and k == d):
                fs[k][2] = into_t
            elif target != into_t:
                fs.append([[], FIELD_NAMES[n], into_t])
                k = n
            cands = [j for j, f in enumerate(fs) if f[2] == into_t]
            if into_t == "u16" and rng.random() < 0.4 and not fs[k][0]:
                # a generic field that has to be converted: the impl needs the automatic predicate `T: Into<u16>`
                fs[k][2] = "T"
                fs[k][0].append("Into(%s)" % into_t)
            elif len(fs) > 1 and (len(cands) > 1 or rng.random() < 0.5):
                fs[k][0].append("Into(%s)" % into_t)
            if with_deref and len(fs) > 1 and not fs[d][0]:
                fs[d][0] += ["Deref"] + (["DerefMut"] if with_mut else [])
        def at(ms):
            if not ms:
                return ""
            return "#[educe(%s)] " % ", ".join(ms) if rng.random() < 0.5 else "".join("#[educe(%s)] " % m for m in ms)
        if shape == "tuple":
            return "(%s)" % ", ".join("%s%s" % (at(ms), ty) for ms, _, ty in fs), fs
        return " { %s }" % ", ".join("%s%s: %s" % (at(ms), nm, ty) for ms, nm, ty in fs), fs

    used_src = ""
    if kind == "struct":
        shape = rng.choice(["tuple", "named"])
        body, fs = variant(shape, rng.randint(1, 4))
        used_src = body
    else:
        vs = []
        for k in range(rng.randint(1, 3)):
            shape = rng.choice(["tuple", "named"])
            b, fs = variant(shape, rng.randint(1, 3))
            vs.append("%s%s" % (VARIANTS[k], b))
        body = " { %s }" % ", ".join(vs)
        used_src = body
    params = []
    if "'a" in used_src:
        params.append("'a")
    if "T" in used_src.replace("PhantomData", ""):
        params.append("T")
    if "N]" in used_src:
        params.append("const N: usize")
    where = " where T: 'a" if ("'a" in params and "T" in params) else ""
    if not where and "T" in params and rng.random() < 0.3:
        where = " where T: Sized"
    if where and rng.random() < 0.4:
        where += ","                       # trailing comma
    elif not where and rng.random() < 0.05:
        where = " where"                   # no predicates at all
    traits = (["Deref"] + (["DerefMut"] if with_mut else []) if with_deref else []) + (["Into(%s)" % into_t] if into_t else []) + extra
    rng.shuffle(traits)
    g = "<%s>" % ", ".join(params) if params else ""
    ta = "#[educe(%s)]\n" % ", ".join(traits) if rng.random() < 0.6 else "".join("#[educe(%s)]\n" % t for t in traits)
    kw = "struct" if kind == "struct" else "enum"
    if kind == "struct" and body.startswith("("):
        src = "#[derive(Educe)]\n%spub %s A%d%s%s%s;" % (ta, kw, i, g, body, where)
    else:
        src = "#[derive(Educe)]\n%spub %s A%d%s%s%s" % (ta, kw, i, g, where, body)
    return src, {"kind": "access/" + kind, "traits": traits, "lifetimes": int("'a" in params), "consts": int("const N: usize" in params), "where": bool(where)}


def plain_types(src):
    return re.sub("[\x01-\x06]", "", src)


def through_macro(src, i):
    """the same definition as the output of a macro_rules! macro whose `$t:ty` fragments are the field types (the derive
    then sees each of them inside a None-delimited group)"""
    frs = []
    full = i % 2 == 1          # also the field names and the visibility of attribute-less fields

    def sub(m):
        spec = {"\x01": "ty", "\x03": "ident", "\x05": "vis"}[m.group(1)]
        if spec != "ty" and not full:
            return m.group(2)
        frs.append((spec, m.group(2)))
        return "$x%d" % (len(frs) - 1)
    body = re.sub("([\x01\x03\x05])(.*?)[\x02\x04\x06]", sub, src)
    if not frs:
        return plain_types(src)
    return "macro_rules! mg_%d { (%s) => {\n%s\n} }\nmg_%d!(%s);" % (i, ", ".join("$x%d:%s" % (k, sp) for k, (sp, _) in enumerate(frs)), body, i, ", ".join(t for _, t in frs))


# An Into target written with a lifetime parameter of the type: the handler normalises every reference target to `&'static`
# (so that `Into(&str)` can be written at all), and emits the normalised type - known finding, see known_findings.json.
INTO_LIFETIME_PROBES = [
    "#[derive(Educe)]\n#[educe(Into(&'a str))]\npub struct P0<'a> { pub a: &'a str, pub b: u8 }",
    "#[derive(Educe)]\n#[educe(Into(&'a u16))]\npub struct P1<'a>(pub &'a u16);",
    "#[derive(Educe)]\n#[educe(Into(&'a str))]\npub enum P2<'a> { A(&'a str), B { x: u8, s: &'a str } }",
]


# Types whose last field is unsized (`T: ?Sized`): everything `#[derive]` accepts there has to work for the educed impls too
# (educed Debug hands every field to the `core::fmt` builders as `&T`, which has to coerce to `&dyn Debug` and so needs
#  `T: Sized` - known finding `debug-unsized-field`; the probes with Debug are matched against it, the others must compile)
UNSIZED_PROBES = [
    "#[derive(Educe)]\n#[educe(Debug)]\npub struct U0<T: ?Sized + core::fmt::Debug> { #[educe(Debug(method(crate::m_dbg)))] pub a: u8, pub b: T }",
    "#[derive(Educe)]\n#[educe(Debug)]\npub struct U1<T: ?Sized + core::fmt::Debug> { pub a: u8, pub b: T }",
    "#[derive(Educe)]\n#[educe(PartialEq, Eq, PartialOrd, Ord, Hash)]\npub struct U4<T: ?Sized + Ord + core::hash::Hash> { pub a: u8, pub b: T }",
    "#[derive(Educe)]\n#[educe(Debug(name = false), PartialEq)]\npub struct U2<T: ?Sized + PartialEq + core::fmt::Debug>(pub u8, #[educe(Debug(method(crate::m_dbg)))] pub u8, pub T);",
    "#[derive(Educe)]\n#[educe(Hash, PartialEq)]\npub struct U3<T: ?Sized + core::hash::Hash + PartialEq> { #[educe(Hash(method(crate::m_hash)), PartialEq(method(crate::m_eq)))] pub a: u8, pub b: T }",
]


def unsized_probe(tie, so, work):
    src = ("#![allow(dead_code)]\nuse educe::Educe;\n"
           "pub fn m_dbg(a: &u8, f: &mut core::fmt::Formatter<'_>) -> core::fmt::Result { write!(f, \"<{}>\", a) }\n"
           "pub fn m_hash<H: core::hash::Hasher>(a: &u8, h: &mut H) { h.write_u8(*a) }\npub fn m_eq(a: &u8, b: &u8) -> bool { a == b }\n")
    hits = []
    for k, d in enumerate(UNSIZED_PROBES):
        path = os.path.join(work, "unsized_%d.rs" % k)
        open(path, "w").write(src + d + "\n")
        rc, diags = compile_lib(path, so)
        tie["evaluations"] += 1
        errs = [x for x in diags if x.get("level") == "error"]
        if errs:
            msg = (errs[0].get("message") or "")[:200]
            known = [f for f in common.known_findings() if f.get("status") == "open" and f.get("property") == "C01"
                     and f.get("matcher", {}).get("kind") == "debug-unsized-field"]
            if known and "Debug" in d.split("\n")[1] and "the size for values of type" in msg:
                hits.append(re.search(r"struct (U\d)", d).group(1))
            else:
                tie["failing"].append({"what": "generated code for an accepted definition with an unsized last field does not compile", "rust_source": d,
                                       "observed": msg})
    if hits:
        tie["known"].append("educed Debug on a type whose last field is unsized (`T: ?Sized`) does not compile: the field is handed to the builder as `&T`, "
                            "which must coerce to `&dyn Debug` (%s)" % ", ".join(hits))
    tie["extra"]["unsized_probes"] = len(UNSIZED_PROBES)


def into_lifetime_probe(tie, so, work):
    hits = []
    for k, src in enumerate(INTO_LIFETIME_PROBES):
        path = os.path.join(work, "into_lt_%d.rs" % k)
        open(path, "w").write("#![allow(dead_code)]\nuse educe::Educe;\n%s\n" % src)
        rc, diags = compile_lib(path, so)
        tie["evaluations"] += 1
        errs = [d for d in diags if d.get("level") == "error"]
        if not errs:
            continue
        msg = (errs[0].get("message") or "")[:200]
        known = [f for f in common.known_findings() if f.get("status") == "open" and f.get("property") == "C01"
                 and f.get("matcher", {}).get("kind") == "into-target-with-type-lifetime"]
        if known and ("lifetime may not live long enough" in msg or "lifetime" in msg):
            hits.append("P%d" % k)
        else:
            tie["failing"].append({"what": "generated code for an accepted, well-typed definition does not compile", "rust_source": src, "observed": msg})
    if hits:
        tie["known"].append("`Into(&'a T)` with a lifetime parameter of the type: the impl is emitted for `&'static T` and does not compile (%s)" % ", ".join(hits))


def compile_lib(path, so):
    cmd = ["rustc", "--edition", "2021", "--crate-type", "lib", "--emit=metadata", "--error-format=json", "-C", "debuginfo=0",
           "--extern", "educe=" + so, "--out-dir", os.path.dirname(path), path]
    p = subprocess.run(cmd, capture_output=True, text=True, timeout=1800)
    diags = []
    for l in p.stderr.splitlines():
        try:
            d = json.loads(l)
        except ValueError:
            continue
        if d.get("level") in ("error", "warning") and d.get("spans"):
            diags.append(d)
    return p.returncode, diags


def judge(diags, line_map, by_id, label, tie, hist):
    """errors and non-benign warnings located in a definition are that definition's failure"""
    seen = set()
    for d in diags:
        sp = d["spans"][0]
        for s in d["spans"]:
            if s.get("is_primary"):
                sp = s
        ln = sp["line_start"]
        k = None
        for a, b, i in line_map:
            if a <= ln <= b:
                k = i
        code = (d.get("code") or {}).get("code", "")
        if d["level"] == "warning" and code in BENIGN_LINTS:
            continue
        if k is None:
            if d["level"] == "error":
                tie["broken"].append("harness (%s): error outside the generated definitions: %s" % (label, d["message"][:200]))
            continue
        if k in seen:
            continue
        seen.add(k)
        hist[d["level"]] += 1
        tie["failing"].append({"what": "the items generated for an accepted, well-typed definition do not compile cleanly (%s)" % d["level"],
                               "generator": label, "rust_source": by_id[k], "observed": "%s %s" % (code, (d.get("rendered") or d["message"])[:600]),
                               "expected_spec": "no errors, no warnings"})


def main(tier):
    t0 = time.time()
    proof = common.proof_obligations("C01")
    rng = random.Random(common.seed())
    tie = {"evaluations": 0, "distinct_nontrivial": 0, "failing": [], "broken": [], "broken_details": [], "known": [], "samples": [], "extra": {}}
    try:
        so = common.build_proc_macro()
    except common.BuildError as e:
        tie["broken"].append("harness: " + str(e)[:300])
        return common.finish("C01", tier, t0, proof, tie)
    work = common.scratch("C01")
    per_plugin, n_generic = (120, 1500) if tier == "quick" else (1200, 20000)
    hist = collections.Counter()
    jobs = []
    # pool A: the behavioural generators' definitions (every documented attribute combination they spell)
    for label, p, defs in plugin_pools(rng, per_plugin):
        parts = ["#![allow(unused_imports)]\n" + gen.PRELUDE + getattr(p, "prelude_extra", "")]
        cur = parts[0].count("\n") + 1
        line_map, by_id = [], {}
        for i, src in defs:
            m = "pub mod d%d {\n use super::prelude::*; %s\n%s\n}\n" % (i, getattr(p, "mod_uses", ""), src)
            n = m.count("\n")
            line_map.append((cur, cur + n, i))
            by_id[i] = src
            cur += n
            parts.append(m)
        path = os.path.join(work, "a_%s.rs" % "".join(c for c in label if c.isalnum()))
        open(path, "w").write("".join(parts))
        jobs.append((label, path, line_map, by_id))
    # pool A': Debug definitions eight to a module - helper items a derive emits next to its impl (rather than inside a
    # function body) meet those of the neighbouring derives there
    sh = getattr(plugin_pools, "shared", [])
    if sh:
        parts = ["#![allow(unused_imports)]\n" + gen.PRELUDE]
        cur = parts[0].count("\n") + 1
        line_map, by_id = [], {}
        for g in range(0, len(sh), 8):
            m = "pub mod s%d {\n use super::prelude::*;\n%s\n}\n" % (g, "\n".join(sh[g:g + 8]))
            n = m.count("\n")
            line_map.append((cur, cur + n, 900000 + g))
            by_id[900000 + g] = "\n".join(sh[g:g + 8])
            cur += n
            parts.append(m)
        path = os.path.join(work, "a_shared.rs")
        open(path, "w").write("".join(parts))
        jobs.append(("Debug definitions sharing a module", path, line_map, by_id))
    # pool B: generic definitions
    gdefs, gmeta = [], {}
    for i in range(n_generic):
        src, meta = make_generic(rng, i) if i % 5 else make_access(rng, i)
        gdefs.append((i, plain_types(src)))
        gmeta[i] = meta
        gmeta[i]["compiled_src"] = through_macro(src, i) if (i % 7 == 3) else plain_types(src)
        gmeta[i]["through_macro"] = int("macro_rules!" in gmeta[i]["compiled_src"])
    chunk = 500
    for c in range(0, len(gdefs), chunk):
        parts = ["#![allow(unused_imports)]\nuse educe::Educe;\n" + METHODS]
        cur = parts[0].count("\n") + 1
        line_map, by_id = [], {}
        for i, src in gdefs[c:c + chunk]:
            src = gmeta[i]["compiled_src"]
            m = "pub mod g%d {\n use educe::Educe;\n%s\n}\n" % (i, src)
            n = m.count("\n")
            line_map.append((cur, cur + n, i))
            by_id[i] = src
            cur += n
            parts.append(m)
        path = os.path.join(work, "b_%d.rs" % c)
        open(path, "w").write("".join(parts))
        jobs.append(("generic definitions", path, line_map, by_id))

    def run(job):
        label, path, line_map, by_id = job
        rc, diags = compile_lib(path, so)
        return job, rc, diags

    with ThreadPoolExecutor(max_workers=12) as ex:
        results = list(ex.map(run, jobs))
    for (label, path, line_map, by_id), rc, diags in results:
        tie["evaluations"] += len(by_id)
        before = len(tie["failing"])
        judge(diags, line_map, by_id, label, tie, hist)
        if rc != 0 and len(tie["failing"]) == before and not tie["broken"]:
            tie["broken"].append("harness (%s): rustc failed without a located diagnostic" % label)
        tie["distinct_nontrivial"] += len(by_id) - (len(tie["failing"]) - before)
    into_lifetime_probe(tie, so, work)
    unsized_probe(tie, so, work)
    # acceptance and the outcome model (B4) on the generic pool
    try:
        real = attr.expand_real(gdefs, group=True)
        model = attr.expand_model(real)
        for i, src in gdefs:
            r = real[i]
            tie["evaluations"] += 1
            gf, gb = attr.grouped_findings(r, src)
            tie["failing"] += gf[:1]
            for b in gb[:1]:
                tie["broken"].append("B4: " + b)
                tie["broken_details"].append({"rust_source": src})
            if r["outcome"] != "ok":
                tie["failing"].append({"what": "a documented form on a supported shape is refused", "rust_source": src,
                                       "observed": r.get("message", r["outcome"])[:300], "expected_spec": "accepted"})
                continue
            bad = attr.compare(r, model.get(i)) if model.get(i) else ["no model result"]
            if bad:
                tie["broken"].append("B4: " + bad[0][:200])
                tie["broken_details"].append({"rust_source": src, "disagreement": bad})
    except (common.BuildError, RuntimeError) as e:
        tie["broken"].append("B4: " + str(e)[:400])
    kinds = collections.Counter(m["kind"] for m in gmeta.values())
    tie["extra"]["generic_kinds"] = dict(kinds)
    tie["extra"]["generic_dimensions"] = {k: sum(1 for m in gmeta.values() if m.get(k)) for k in ("lifetimes", "consts", "where", "raw_ident", "repr", "through_macro")}
    tie["extra"]["diagnostics"] = dict(hist)
    tie["failing"] = tie["failing"][:4]
    tie["broken"] = tie["broken"][:4]
    tie["rule"] = ("pool A: %d definitions from each of the ten behavioural generators (three times as many for Debug) (all attribute spellings, noise traits), the Debug definitions without companion items once more eight to a module; pool B: %d generic "
                   "definitions (struct named/tuple/unit, enums with 1-4 variants, single-variant and empty enums; lifetime, 1-2 type and a const "
                   "parameter, inline `: Sized` bounds and where-clauses, raw identifiers r#type / r#match, #[repr(u8|i16|C|align|u8, align|C, u8)], "
                   "explicit discriminants; random trait sets closed under supertraits incl. Copy; ignore / rank / name / named_field / Default(new) "
                   "/ variant Default attributes) - compiled as library crates against the real proc-macro; any error, and any warning outside "
                   "{dead_code, unused_imports, naming lints of the harness}, located in a definition is that definition's failure. Pool B is "
                   "also expanded in-process: every definition must be accepted, and the outcome model must agree. distinct_nontrivial = "
                   "definitions compiled without diagnostics" % (per_plugin, n_generic))
    tie["samples"] = [{"rust_source": s} for _, s in gdefs[:3]]
    if not tie["failing"] and not tie["broken"]:
        import shutil
        shutil.rmtree(work, ignore_errors=True)
    return common.finish("C01", tier, t0, proof, tie)
