"""C18 — every subset of trait features builds and behaves like the full build."""
import collections, itertools, json, os, random, re, subprocess, time, tomllib
from concurrent.futures import ThreadPoolExecutor
from .. import common, gen

TRAITS = ["Debug", "Clone", "Copy", "PartialEq", "Eq", "PartialOrd", "Ord", "Hash", "Default", "Deref", "DerefMut", "Into"]
NO_FEATURE_MSG = "at least one of the trait features must be enabled"


def cargo_features():
    with open(os.path.join(common.REPO, "Cargo.toml"), "rb") as f:
        t = tomllib.load(f)
    return t.get("features", {}), t["package"].get("edition", "2021")


def closure(sel, table):
    """what cargo enables when `sel` is requested with --no-default-features"""
    out, todo = set(), list(sel)
    while todo:
        f = todo.pop()
        if f in out:
            continue
        out.add(f)
        for d in table.get(f, []):
            if "/" not in d and not d.startswith("dep:") and d in table:
                todo.append(d)
    return out


def dep_artifacts():
    """rlib/rmeta paths of educe's dependencies as built for the real proc-macro"""
    with common.Lock("cargo"):
        rc, out, err = common.run(["cargo", "build", "--offline", "-p", "pmhost", "--message-format=json"], cwd=common.HARNESS, timeout=3600)
    arts = {}
    for line in out.splitlines():
        try:
            m = json.loads(line)
        except ValueError:
            continue
        if m.get("reason") == "compiler-artifact" and "lib" in m["target"].get("kind", []):
            name = m["target"]["name"]
            feats = m.get("features", [])
            # educe asks for syn with default features; prefer that build over the one with `full`
            if name == "syn" and "full" in feats and name in arts:
                continue
            arts[name] = [f for f in m["filenames"] if f.endswith(".rlib")][0]
    need = ["syn", "quote", "proc_macro2", "enum_ordinalize"]
    if rc != 0 or any(n not in arts for n in need):
        raise common.BuildError("building the dependencies of /repo failed", err[-3000:])
    return {n: arts[n] for n in need}


def rustc_base(arts, edition, table):
    deps = os.path.dirname(arts["syn"])
    vals = ",".join('"%s"' % f for f in table)
    cmd = ["rustc", "--crate-name", "educe", "--edition=%s" % edition, os.path.join(common.REPO, "src", "lib.rs"),
           "--crate-type", "proc-macro", "--error-format=json", "-C", "debuginfo=0",
           "--check-cfg", "cfg(magiclen_educe_verif)", "--check-cfg", "cfg(docsrs)",
           "--check-cfg", "cfg(feature, values(%s))" % vals, "-L", "dependency=" + deps, "--extern", "proc_macro"]
    for n in ("enum_ordinalize", "proc_macro2", "quote", "syn"):
        cmd += ["--extern", "%s=%s" % (n, arts[n])]
    return cmd


def diagnostics(stderr):
    errs, warns = [], []
    for l in stderr.splitlines():
        try:
            d = json.loads(l)
        except ValueError:
            continue
        if d.get("level") == "error" and not d["message"].startswith("aborting due to"):
            errs.append(d["message"])
        elif d.get("level") == "warning" and not re.match(r"\d+ warnings? emitted", d["message"]):
            sp = d.get("spans") or [{}]
            warns.append("%s (%s:%s)" % (d["message"], os.path.basename(sp[0].get("file_name", "?")), sp[0].get("line_start", "?")))
    return errs, warns


def check_subset(base, enabled, outdir, link=False):
    os.makedirs(outdir, exist_ok=True)
    cmd = base + ["--out-dir", outdir, "--emit=" + ("link" if link else "metadata")] + (["-C", "prefer-dynamic"] if link else [])
    for f in sorted(enabled):
        cmd += ["--cfg", 'feature="%s"' % f]
    p = subprocess.run(cmd, capture_output=True, text=True, timeout=600)
    errs, warns = diagnostics(p.stderr)
    return p.returncode, errs, warns


def subsets_quick(rng, n_random):
    out = [()]
    out += [(t,) for t in TRAITS]
    out += [tuple(x for x in TRAITS if x != t) for t in TRAITS]
    out += list(itertools.combinations(TRAITS, 2))
    for _ in range(n_random):
        k = rng.randint(3, 10)
        out.append(tuple(sorted(rng.sample(TRAITS, k), key=TRAITS.index)))
    return list(dict.fromkeys(out))


SIMPLE = {
    "Debug": "#[educe(Debug)] pub struct Z%d { a: u8, b: (u8, u8) }",
    "Clone": "#[educe(Clone)] pub enum Z%d<T> { A(T), B { x: u8 }, C }",
    "Copy": "#[educe(Copy)] pub struct Z%d(u8);",
    "PartialEq": "#[educe(PartialEq)] pub enum Z%d { A(u8, #[educe(PartialEq(ignore))] u8), B }",
    "Eq": "#[educe(Eq)] pub struct Z%d<T>(T);",
    "PartialOrd": "#[educe(PartialOrd)] pub enum Z%d { A = 3, B(u8), C { #[educe(PartialOrd(rank = 1))] x: u8, #[educe(PartialOrd(rank = 0))] y: u8 } }",
    "Ord": "#[educe(Ord)] pub struct Z%d<T>(T, #[educe(Ord(ignore))] u8);",
    "Hash": "#[educe(Hash)] pub enum Z%d<T> { A(T), B { x: u8 } }",
    "Default": "#[educe(Default(new))] pub struct Z%d { #[educe(Default = 7)] a: u8, b: u16 }",
    "Deref": "#[educe(Deref)] pub struct Z%d(u8, #[educe(Deref)] u16);",
    "DerefMut": "#[educe(DerefMut)] pub struct Z%d(#[educe(DerefMut)] u8, u16);",
    "Into": "#[educe(Into(u8), Into(u16))] pub struct Z%d(u8, u16);",
}
COUPLES = [
    (("Clone", "Copy"), "#[educe(Clone, Copy)] pub enum Z%d<T> { A(T), B }"),
    (("Copy", "Clone"), "#[educe(Copy, Clone)] pub struct Z%d<T>(T);"),
    (("PartialEq", "Eq"), "#[educe(PartialEq, Eq)] pub struct Z%d<T>(T, #[educe(Eq(ignore))] u8);"),
    (("PartialOrd", "Ord"), "#[educe(PartialOrd, Ord)] pub enum Z%d<T> { A(T), B = 7 }"),
    (("PartialOrd", "Ord", "PartialEq", "Eq"), "#[educe(PartialEq, Eq, PartialOrd, Ord)] pub struct Z%d<T>(#[educe(Ord(rank = 1))] T, u8);"),
    (("Deref", "DerefMut"), "#[educe(Deref, DerefMut)] pub struct Z%d { #[educe(Deref, DerefMut)] a: u8, b: u8 }"),
    (("Debug", "Hash", "Clone"), "#[educe(Debug(name = false), Hash, Clone)] pub struct Z%d<T>(#[educe(Debug(ignore), Hash(ignore))] T, u8);"),
]


def named_traits(src):
    names = set()
    for inner in re.findall(r"#\[educe\((.*?)\)\]", src, re.S):
        for n in re.findall(r"(?:^|[,(]\s*)([A-Z][A-Za-z]*)\b", inner):
            if n in TRAITS:
                names.add(n)
    return names


def pool(rng, n):
    """definitions from the behavioural generators plus fixed simple forms; (source, trait names)"""
    from . import c02, c03, c05, c06, c07, c09, c10
    makers = [c02.P(100), c03.P(100), c05.P(100), c06.P(), c07.P(100), c09.P(), c10.P()]
    out = []
    k = 0
    for t, src in SIMPLE.items():
        out.append((src % k, {t}))
        k += 1
    for ts, src in COUPLES:
        out.append((src % k, set(ts)))
        k += 1
    for i in range(n):
        p = rng.choice(makers)
        try:
            gen.NOISE_OVERRIDE = rng.sample(["Debug", "Hash", "PartialEq", "Clone"], rng.randint(0, 2))
            td = p.make(random.Random(rng.random()), 1000 + i)
        finally:
            gen.NOISE_OVERRIDE = None
        src = td.render(bare=True).replace("#[derive(Educe)]\n", "")
        out.append((src, named_traits(src)))
    return out


def expand_with(so, defs, workdir, tag):
    """expanded source per definition (rustc -Zunpretty=expanded), or the diagnostics when expansion fails"""
    path = os.path.join(workdir, "pool_%s.rs" % tag)
    with open(path, "w") as f:
        f.write("#![allow(dead_code)]\n")
        for i, (src, _) in defs:
            f.write("mod m%d { use educe::Educe;\n#[derive(Educe)]\n%s\n}\n" % (i, src))
    env = dict(os.environ, RUSTC_BOOTSTRAP="1")
    p = subprocess.run(["rustc", "--edition", "2021", "--crate-type", "lib", "-Zunpretty=expanded", "--error-format=json",
                        "--extern", "educe=" + so, path], capture_output=True, text=True, env=env, timeout=900)
    parts = {}
    cur = None
    for line in p.stdout.splitlines():
        m = re.match(r"^mod m(\d+) \{", line)
        if m:
            cur = int(m.group(1))
            parts[cur] = []
        elif cur is not None:
            parts[cur].append(line)
    errs, _ = diagnostics(p.stderr)
    return {k: "\n".join(v) for k, v in parts.items()}, [e for e in errs if "cannot find" not in e and "unresolved" not in e]


def refusals(so, disabled, workdir, tag):
    """naming a disabled trait: the messages educe gives"""
    path = os.path.join(workdir, "refuse_%s.rs" % tag)
    with open(path, "w") as f:
        for i, t in enumerate(disabled):
            arg = "Into(u8)" if t == "Into" else t
            f.write("mod r%d { use educe::Educe;\n#[derive(Educe)]\n#[educe(%s)]\npub struct R(u8);\n}\n" % (i, arg))
    p = subprocess.run(["rustc", "--edition", "2021", "--crate-type", "lib", "--emit=metadata", "--error-format=json", "--out-dir", workdir,
                        "--extern", "educe=" + so, path], capture_output=True, text=True, timeout=900)
    errs, _ = diagnostics(p.stderr)
    return errs


def refusal_messages(so, items, workdir, tag):
    """educe's own diagnostics (errors without a rustc code) per input, for inputs that are invalid by construction"""
    path = os.path.join(workdir, "offences_%s.rs" % tag)
    starts = []
    with open(path, "w") as f:
        f.write("#![allow(dead_code)]\n")
        line = 2
        for i, src in items:
            text = "mod o%d { use educe::Educe;\n%s\n}\n" % (i, src)
            starts.append((line, i))
            line += text.count("\n")
            f.write(text)
    p = subprocess.run(["rustc", "--edition", "2021", "--crate-type", "lib", "--emit=metadata", "--error-format=json", "--out-dir", workdir,
                        "--extern", "educe=" + so, path], capture_output=True, text=True, timeout=900)
    out = {i: [] for i, _ in items}
    for l in p.stderr.splitlines():
        try:
            d = json.loads(l)
        except ValueError:
            continue
        if d.get("level") != "error" or d.get("code") or not d.get("spans"):
            continue
        ln = d["spans"][0]["line_start"]
        owner = None
        for s0, i in starts:
            if s0 <= ln:
                owner = i
        if owner is not None:
            out[owner].append(d["message"].split("\n")[0][:160])
    return out


def main(tier):
    t0 = time.time()
    proof = common.proof_obligations("C18")
    rng = random.Random(common.seed())
    tie = {"evaluations": 0, "distinct_nontrivial": 0, "failing": [], "broken": [], "broken_details": [], "known": [], "samples": [], "extra": {}}
    try:
        table, edition = cargo_features()
        arts = dep_artifacts()
    except (common.BuildError, OSError, KeyError, ValueError) as e:
        tie["broken"].append("harness: " + str(e)[:400])
        return common.finish("C18", tier, t0, proof, tie)
    base = rustc_base(arts, edition, table)
    work = common.scratch("C18")
    trait_feats = [t for t in TRAITS if t in table]
    if trait_feats != TRAITS:
        tie["failing"].append({"what": "Cargo.toml no longer declares the twelve trait features", "observed": sorted(table), "expected_spec": TRAITS})

    # ---- (b) every subset compiles without errors or warnings; the empty set is refused with the explicit message
    if tier == "quick":
        subsets = subsets_quick(rng, 60)
    else:
        subsets = [tuple(t for i, t in enumerate(TRAITS) if m >> i & 1) for m in range(4096)]

    def job(ix_s):
        ix, s = ix_s
        en = closure(s, table)
        rc, errs, warns = check_subset(base, en, os.path.join(work, "m%d" % ix))
        return s, en, rc, errs, warns

    with ThreadPoolExecutor(max_workers=16) as ex:
        results = list(ex.map(job, enumerate(subsets)))
    sizes = collections.Counter()
    for s, en, rc, errs, warns in results:
        tie["evaluations"] += 1
        sizes[len(s)] += 1
        label = "--no-default-features --features '%s'" % " ".join(s)
        if not (set(en) & set(TRAITS)):
            if not (rc != 0 and len(errs) >= 1 and errs[0] == NO_FEATURE_MSG):
                tie["failing"].append({"what": "with no trait feature the crate must refuse to build with its explicit message",
                                       "features": label, "observed": {"rc": rc, "errors": errs[:3]}, "expected_spec": NO_FEATURE_MSG})
            continue
        tie["distinct_nontrivial"] += 1
        if rc != 0 or errs or warns:
            tie["failing"].append({"what": "the crate does not build cleanly with this feature subset", "features": label,
                                   "cfg_enabled": sorted(en), "observed": {"rc": rc, "errors": errs[:5], "warnings": warns[:5]},
                                   "expected_spec": "no errors, no warnings", "replay_cmd": "cd /repo && cargo check --offline " + label})
    tie["extra"]["subset_sizes"] = {str(k): v for k, v in sorted(sizes.items())}

    # ---- (a) enabled traits expand as in the full build; disabled ones are refused as unsupported
    n_beh = 10 if tier == "quick" else 56
    beh = [("Ord",), ("Clone",), ("DerefMut",), ("PartialEq", "PartialOrd")]
    # one partner of a coupled pair switched off while everything else is on: the code paired by cfg(feature) /
    # cfg(not(feature)) meets the attributes of all the other traits
    beh += [tuple(t for t in TRAITS if t != "PartialOrd"), tuple(t for t in TRAITS if t not in ("Copy", "Eq", "DerefMut"))]
    # a coupled pair on its own: the partner-reading code without any of the features its cfg expressions could be
    # confused with
    beh += [("PartialOrd", "Ord"), ("PartialEq", "Eq")]
    if tier != "quick":
        beh += [tuple(t for t in TRAITS if t != x) for x in TRAITS if x != "PartialOrd"]
        beh += [("Clone", "Copy"), ("Deref", "DerefMut")]
    while len(beh) < n_beh:
        k = rng.randint(1, 8)
        s = tuple(sorted(rng.sample(TRAITS, k), key=TRAITS.index))
        if s not in beh:
            beh.append(s)
    defs = list(enumerate(pool(rng, 150 if tier == "quick" else 600)))
    # inputs that are refused by design (C13's invalid-by-construction stream): a subset build must refuse them alike
    from .. import offences
    off_lab = [(k, src, named_traits(src), label) for k, (label, classes, src) in enumerate(offences.generate())]
    # (the clause about attributes that one trait reads on behalf of its coupled partner is replayed in full)
    keep = [x[:3] for x in off_lab if x[3] == "variant-attribute-of-educed-trait"]
    off_all = [x[:3] for x in off_lab if x[3] != "variant-attribute-of-educed-trait"]
    rng.shuffle(off_all)
    off_all = keep + off_all[: (300 if tier == "quick" else 1500)]
    rc, errs, _ = check_subset(base, closure(TRAITS, table), os.path.join(work, "all"), link=True)
    so_all = os.path.join(work, "all", "libeduce.so")
    if rc != 0 or not os.path.exists(so_all):
        tie["broken"].append("harness: the all-features proc-macro does not link: " + "; ".join(errs[:2]))
        return common.finish("C18", tier, t0, proof, tie)
    full, full_errs = expand_with(so_all, defs, work, "all")
    full_ref = refusal_messages(so_all, [(k, src) for k, src, _ in off_all], os.path.join(work, "all"), "all")
    if full_errs:
        tie["broken"].append("harness: the all-features build refuses part of the pool: " + full_errs[0][:200])

    def beh_job(ix_s):
        ix, s = ix_s
        en = closure(s, table)
        d = os.path.join(work, "b%d" % ix)
        rc, errs, _ = check_subset(base, en, d, link=True)
        if rc != 0:
            return s, en, None, None, None
        so = os.path.join(d, "libeduce.so")
        mine = [(i, x) for i, x in defs if x[1] <= (set(s))]
        got, gerrs = expand_with(so, mine, d, "s")
        disabled = [t for t in TRAITS if t not in s]
        ref = refusals(so, disabled, d, "s")
        offs = [(k, src) for k, src, names in off_all if names and names <= set(s)]
        offm = refusal_messages(so, offs, d, "s") if offs else {}
        return s, en, (mine, got, gerrs), disabled, (ref, offm)

    with ThreadPoolExecutor(max_workers=8) as ex:
        bres = list(ex.map(beh_job, enumerate(beh)))
    compared = 0
    off_src = {k: src for k, src, _ in off_all}
    refused_alike = 0
    for s, en, exp, disabled, ref in bres:
        label = "--no-default-features --features '%s'" % " ".join(s)
        if exp is None:
            continue  # already reported by the build part
        ref, offm = ref
        for k, msgs in offm.items():
            tie["evaluations"] += 1
            if sorted(msgs) != sorted(full_ref.get(k, [])):
                tie["failing"].append({"what": "an input the all-features build refuses is treated differently by the subset build", "features": label,
                                       "rust_source": off_src[k], "observed": msgs[:3] or "accepted", "expected_spec": full_ref.get(k, [])[:3]})
                break
            refused_alike += 1
        mine, got, gerrs = exp
        for e in gerrs[:1]:
            tie["failing"].append({"what": "a definition naming only enabled traits is refused in the subset build", "features": label,
                                   "observed": e[:300], "expected_spec": "accepted as in the all-features build"})
        for i, (src, names) in mine:
            tie["evaluations"] += 1
            if i in full and got.get(i) != full[i]:
                tie["failing"].append({"what": "the subset build expands an enabled trait differently from the all-features build",
                                       "features": label, "rust_source": "#[derive(Educe)]\n" + src,
                                       "observed": (got.get(i) or "<no expansion>")[:1500], "expected_spec": full[i][:1500]})
                break
            compared += 1
        # disabled traits: one `unsupported trait` diagnostic each, listing exactly the enabled traits
        want = ", ".join(t for t in TRAITS if t in s)
        for t in disabled:
            tie["evaluations"] += 1
            hit = [e for e in ref if e.startswith("unsupported trait `%s`" % t)]
            if not hit:
                tie["failing"].append({"what": "naming the disabled trait %s is not refused as unsupported" % t, "features": label,
                                       "cfg_enabled": sorted(en), "rust_source": "#[derive(Educe)] #[educe(%s)] pub struct R(u8);" % ("Into(u8)" if t == "Into" else t),
                                       "observed": ref[:3], "expected_spec": "error: unsupported trait `%s`, available traits: …" % t})
                break
            listed = ", ".join(hit[0].split("available traits:")[-1].split())
            if listed != want:
                tie["failing"].append({"what": "the list of available traits in the diagnostic is not the enabled set", "features": label,
                                       "observed": listed, "expected_spec": want})
                break
    tie["extra"]["behaviour_subsets"] = [" ".join(s) for s in beh]
    tie["extra"]["expansions_compared_with_full_build"] = compared
    tie["extra"]["refusals_compared_with_full_build"] = refused_alike
    tie["failing"] = tie["failing"][:4]
    tie["rule"] = ("(b) /repo/src/lib.rs compiled by rustc (--emit=metadata, the dependency artifacts of the real build, cargo's --check-cfg for the "
                   "declared features) once per feature subset, cfg set = closure of the subset under Cargo.toml's feature table: quick = the empty "
                   "set, 12 singletons, 12 complements, 66 pairs, 60 random; thorough = all 4096. Expected: no error and no warning; empty set: the "
                   "explicit compile_error. (a) for 10 (thorough 56) subsets (among them all-but-PartialOrd, all-but-{Copy, Eq, DerefMut}, the coupled pairs {PartialOrd, Ord} and {PartialEq, Eq} on their own; thorough: every all-but-one subset, {Clone, Copy}, {Deref, DerefMut}) the real proc-macro is linked and a pool of definitions naming only "
                   "enabled traits (fixed simple forms per trait and couple + the behavioural generators) is expanded with rustc -Zunpretty=expanded; "
                   "each module's expansion must equal the all-features build's; each disabled trait must be refused with `unsupported trait`, the "
                   "message listing exactly the enabled traits; inputs that are invalid by construction (C13's stream, those naming only enabled "
                   "traits) must draw the same educe diagnostics as in the all-features build. distinct_nontrivial = non-empty subsets compiled")
    tie["samples"] = [{"features": " ".join(s)} for s in subsets[13:16]]
    import shutil
    shutil.rmtree(work, ignore_errors=True)
    return common.finish("C18", tier, t0, proof, tie)
