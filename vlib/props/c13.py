"""C13 — contradictory, ambiguous or misplaced attributes are rejected, not guessed."""
import random, time
from .. import common, attr, offences


def main(tier):
    t0 = time.time()
    proof = common.proof_obligations("C13")
    rng = random.Random(common.seed())
    tie = {"evaluations": 0, "distinct_nontrivial": 0, "failing": [], "broken": [], "broken_details": [], "known": [], "samples": [], "extra": {}}
    cases = list(offences.generate())
    if tier == "quick":
        # every clause, a seeded sample of the placements
        by = {}
        for c in cases:
            by.setdefault(c[0], []).append(c)
        cases = []
        for k, v in by.items():
            rng.shuffle(v)
            cases += v[:600]
    # valid definitions must keep being accepted by both sides (no check may pass by refusing everything)
    pool = attr.valid_pool(rng, 150 if tier == "quick" else 1500, start_id=100000)
    try:
        real = attr.expand_real([(i, c[2]) for i, c in enumerate(cases)] + [(i, s) for i, s, _ in pool])
        model = attr.expand_model(real)
    except (common.BuildError, RuntimeError) as e:
        tie["broken"].append("B4: " + str(e)[:500])
        return common.finish("C13", tier, t0, proof, tie)
    hist = {}
    for i, (clause, expected, src) in enumerate(cases):
        r = real[i]
        tie["evaluations"] += 1
        hist[clause] = hist.get(clause, 0) + 1
        if r["outcome"] == "parse_error":
            tie["broken"].append("harness: offence generator produced an item that does not parse: " + src[:120])
            continue
        if r["outcome"] == "ok":
            tie["failing"].append({"what": "an invalid derive request was accepted (clause: %s)" % clause, "rust_source": src,
                                   "observed": "expanded to %d impl item(s)" % len(r["items"]), "expected_spec": "a diagnostic (%s)" % "/".join(sorted(expected)),
                                   "model": model.get(i, ["?"])[0]})
            continue
        if r["outcome"] == "panic":
            if attr.confirm_panic_with_rustc(src):
                tie["failing"].append({"what": "proc-macro panicked instead of refusing (clause: %s)" % clause, "rust_source": src, "observed": r.get("message")})
            continue
        rc = attr.classify(r["message"])
        m = model.get(i)
        if m is None:
            tie["broken"].append("B4: no model result")
            continue
        bad = attr.compare(r, m, strict_class=True, compare_items=False)
        if bad:
            tie["broken"].append("B4 (%s): %s" % (clause, bad[0][:200]))
            tie["broken_details"].append({"rust_source": src, "clause": clause, "disagreement": bad})
        elif rc not in expected and tier != "quick":
            tie["extra"].setdefault("other_diagnostic_than_listed", []).append([clause, rc])
    for i, s, _ in pool:
        r = real[i]
        tie["evaluations"] += 1
        m = model.get(i)
        bad = attr.compare(r, m, strict_class=True, compare_items=False) if m else ["no model result"]
        if bad:
            tie["broken"].append("B4 (valid input): " + bad[0][:200])
            tie["broken_details"].append({"rust_source": s, "disagreement": bad})
    tie["failing"] = tie["failing"][:3]
    tie["broken"] = tie["broken"][:3]
    tie["distinct_nontrivial"] = len(cases)
    tie["extra"]["clauses"] = hist
    tie["rule"] = ("invalid-by-construction inputs: every clause of the property (trait / parameter / rank / Into target given twice; "
                   "missing or duplicated designation; attribute for a non-educed or unknown trait; unknown, disabled or misplaced parameter; "
                   "union without unsafe or with an unsupported trait; unit variant under Deref/DerefMut/Into; Debug with nothing to print and no "
                   "name) x struct / enum / union x tuple / named x first / middle / last position x spellings; each must be refused by the real "
                   "macro (in-process) and by the model with the same diagnostic class; plus valid definitions that both must accept. "
                   "distinct_nontrivial = number of distinct offending inputs")
    tie["samples"] = [{"clause": c[0], "rust_source": c[2], "outcome": real[i]["outcome"], "message": real[i].get("message", "")[:100]}
                      for i, c in list(enumerate(cases))[::max(1, len(cases) // 5)][:5]]
    return common.finish("C13", tier, t0, proof, tie)
