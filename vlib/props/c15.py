"""C15 — each trait's impl depends only on that trait's own attributes."""
import collections, json, random, re, time
from .. import common, attr, gen


def twin_defs(rng, n):
    """(id, source with only the traits under test, source with other traits + their attributes added)."""
    from . import c02, c03, c05, c06, c07, c08, c09, c10
    # (Default among them: on an enum only the designated variant's fields may carry Default attributes, and the other
    #  traits' attributes on the fields of the other variants are none of its business)
    makers = [c02.P(100), c03.P(100), c05.P(100), c06.P(), c07.P(100), c08.P(kinds=("struct", "enum", "enum")), c09.P(), c10.P()]
    out = []
    for i in range(n):
        p = rng.choice(makers)
        seed = rng.random()
        noise = rng.sample(["Debug", "Hash", "PartialEq", "Clone"], rng.randint(1, 3))
        try:
            gen.NOISE_OVERRIDE = []
            a = p.make(random.Random(seed), i).render(bare=True)
            gen.NOISE_OVERRIDE = noise
            b = p.make(random.Random(seed), i).render(bare=True)
        finally:
            gen.NOISE_OVERRIDE = None
        out.append((i, a, b, noise))
    return out


def _split_top(s):
    """split at top-level commas, respecting (), [], {}, <> is NOT tracked (commas inside generics only occur inside strings here) and string literals"""
    out, depth, cur, i = [], 0, "", 0
    while i < len(s):
        c = s[i]
        if c == '"':
            j = i + 1
            while j < len(s) and s[j] != '"':
                j += 2 if s[j] == "\\" else 1
            cur += s[i:j + 1]
            i = j + 1
            continue
        if c in "([{":
            depth += 1
        elif c in ")]}":
            depth -= 1
        if c == "," and depth == 0:
            out.append(cur)
            cur = ""
        else:
            cur += c
        i += 1
    if cur.strip():
        out.append(cur)
    return out


def strip_trait(src, t):
    """the same definition with every educe meta of trait `t` removed (type, variant and field level)"""
    out, i = "", 0
    while True:
        j = src.find("#[educe(", i)
        if j < 0:
            return out + src[i:]
        out += src[i:j]
        k, depth = j + 8, 1
        while depth:
            c = src[k]
            if c == '"':
                k += 1
                while src[k] != '"':
                    k += 2 if src[k] == "\\" else 1
            elif c == "(":
                depth += 1
            elif c == ")":
                depth -= 1
            k += 1
        inner = src[j + 8:k - 1]
        assert src[k] == "]", src[j:k + 1]
        metas = [m for m in _split_top(inner) if re.match(r"\s*([A-Za-z_]+)", m).group(1) != t]
        if metas:
            out += "#[educe(%s)]" % ",".join(metas).strip()
        i = k + 1


COUPLED = [{"Clone", "Copy"}, {"Eq", "PartialEq"}, {"Ord", "PartialOrd"}]


def main(tier):
    t0 = time.time()
    proof = common.proof_obligations("C15")
    rng = random.Random(common.seed())
    tie = {"evaluations": 0, "distinct_nontrivial": 0, "failing": [], "broken": [], "broken_details": [], "known": [], "samples": [], "extra": {}}
    n = 400 if tier == "quick" else 6000
    twins = twin_defs(rng, n)
    cases = []
    removed = {}
    for i, a, b, _ in twins:
        cases.append((2 * i, a))
        cases.append((2 * i + 1, b))
        header = b.split("\npub ")[0]
        present = [re.match(r"\s*([A-Za-z_]+)", m).group(1) for inner in re.findall(r"^#\[educe\((.*)\)\]$", header, re.M) for m in _split_top(inner)]
        if len(present) >= 2:
            t = rng.choice(present)
            removed[i] = (t, strip_trait(b, t))
            cases.append((2 * n + i, removed[i][1]))
    try:
        real = attr.expand_real(cases)
        model = attr.expand_model(real)
    except (common.BuildError, RuntimeError) as e:
        tie["broken"].append("B3: " + str(e)[:500])
        return common.finish("C15", tier, t0, proof, tie)
    hist = collections.Counter()
    neg_known = []
    for i, a, b, noise in twins:
        ra, rb = real[2 * i], real[2 * i + 1]
        tie["evaluations"] += 2
        if ra["outcome"] != "ok" or rb["outcome"] != "ok":
            if ra["outcome"] != rb["outcome"]:
                mb = model.get(2 * i + 1)
                if ra["outcome"] == "ok" and mb is not None and mb[0] == "ok":
                    # the model - the behaviour every other check validates - accepts the larger trait set: the refusal is the
                    # implementation's, caused by the other traits' presence or attributes
                    tie["failing"].append({"what": "a definition accepted with the trait alone is refused once other traits (%s) are educed next to it" % ", ".join(noise),
                                           "rust_source": a, "with_other_traits": b, "observed": rb.get("message", rb["outcome"])[:300],
                                           "expected_spec": "accepted, every trait's impl as when it is educed alone"})
                else:
                    tie["broken"].append("harness: adding other traits made the definition %s (%s)" % (rb["outcome"], rb.get("message", "")[:150]))
                    tie["broken_details"].append({"rust_source": b})
            continue
        ia = {attr.trait_name(it.get("trait")) if it.get("trait") else "new": it["tokens"] for it in ra["items"] if "tokens" in it}
        ib = {attr.trait_name(it.get("trait")) if it.get("trait") else "new": it["tokens"] for it in rb["items"] if "tokens" in it}
        changed = [t for t in ia if ia[t] != ib.get(t)]
        hist["+".join(sorted(noise))] += 1
        if changed == ["Default"]:
            # known finding (see C14): a negative number is a literal at the end of its list and a negation before another
            # item, so `#[educe(Default = -40)]` and `#[educe(Default = -40, Hash = false)]` differ in the Into conversion
            strip = lambda x: attr.nospace(x).replace("::core::convert::Into::into", "").replace("(", "").replace(")", "")
            known = [k for k in common.known_findings() if k.get("status") == "open" and k.get("property") == "C15"
                     and k.get("matcher", {}).get("kind") == "negative-number-default-expression"]
            if known and strip(ia["Default"]) == strip(ib.get("Default") or "") and re.search(r"Default\s*(=|\(\s*expr\w*\s*=)\s*-\s*[0-9]", a):
                neg_known.append(i)
                continue
        if changed:
            t = changed[0]
            tie["failing"].append({"what": "the impl of %s changed when other traits (%s) were educed on the same type" % (t, ", ".join(noise)),
                                   "rust_source": a, "with_other_traits": b, "observed": {"alone": ia[t][:500], "with_others": (ib.get(t) or "<missing>")[:500]},
                                   "expected_spec": "identical impl"})
            continue
        if i in removed:
            t, c = removed[i]
            rc = real[2 * n + i]
            tie["evaluations"] += 1
            if rc["outcome"] == "ok":
                ic = {attr.trait_name(it.get("trait")) if it.get("trait") else "new": it["tokens"] for it in rc["items"] if "tokens" in it}
                ch = [x for x in ic if ic[x] != ib.get(x) and not any({x, t} <= cp for cp in COUPLED)]
                hist["-" + t] += 1
                if ch:
                    tie["failing"].append({"what": "the impl of %s changed when %s and its attributes were removed from the same type" % (ch[0], t),
                                           "rust_source": c, "with_other_traits": b, "observed": {"without": ic[ch[0]][:500], "with": (ib.get(ch[0]) or "<missing>")[:500]},
                                           "expected_spec": "identical impl"})
                    continue
            else:
                hist["-%s refused" % t] += 1
        # model side: the shared items are equal too, and the model matches the implementation
        ma, mb = model.get(2 * i), model.get(2 * i + 1)
        for r, m, s in ((ra, ma, a), (rb, mb, b)):
            bad = attr.compare(r, m) if m else ["no model result"]
            if bad:
                tie["broken"].append("B3: " + bad[0][:200])
                tie["broken_details"].append({"rust_source": s, "disagreement": bad})
        if ma and mb and ma[0] == "ok" and mb[0] == "ok":
            da = {it["trait"]: it for it in ma[1]}
            db = {it["trait"]: it for it in mb[1]}
            if any(da[t] != db.get(t) for t in da):
                tie["broken"].append("B3: the model's impl of a trait changes with other traits although the implementation's does not")
                tie["broken_details"].append({"rust_source": [a, b]})
        tie["distinct_nontrivial"] += 1
    if neg_known:
        tie["known"].append("`#[educe(Default = -N)]` and `#[educe(Default = -N, <another trait's attribute>)]` expand the Default impl differently: "
                            "the negative number is a literal (converted with Into) at the end of its list and a negation (used as written) before "
                            "another item (%d definitions)" % len(neg_known))
    tie["failing"] = tie["failing"][:3]
    tie["broken"] = tie["broken"][:3]
    tie["extra"]["added_traits_histogram"] = dict(hist)
    tie["rule"] = ("twin definitions from the behavioural generators (PartialEq/Eq, Ord/PartialOrd, Hash, Debug, Clone/Copy, Deref/DerefMut, Into "
                   "with all their attribute spellings): once with only the traits under test, once with 1-3 further traits (Debug, Hash, PartialEq, "
                   "Clone) educed on the same type in random order / grouping and with attributes of their own on the same fields (same list, "
                   "separate attributes, before or after, interleaved with foreign attributes); the token stream of every impl of the first must "
                   "be unchanged in the second; third member: the second with one randomly chosen educed trait and all its type/variant/field "
                   "metas removed - every remaining impl that is not its documented partner (Copy/Clone, Eq/PartialEq, Ord/PartialOrd) must be unchanged. distinct_nontrivial = twin pairs accepted and compared")
    tie["samples"] = [{"alone": a, "with_others": b} for _, a, b, _ in twins[:3]]
    return common.finish("C15", tier, t0, proof, tie)
