"""Generic derive inputs for C11 / C12: lifetimes, bounded and defaulted type parameters, const
parameters, where-clauses; field types built from the parameters; every bound spelling."""
import random

TRAIT_PATH = {"Debug": "Debug", "Clone": "Clone", "Copy": "Copy", "PartialEq": "PartialEq", "Eq": "Eq", "PartialOrd": "PartialOrd",
              "Ord": "Ord", "Hash": "Hash", "Default": "Default"}


def make(rng, i, force_trait=None):
    """Returns (source, meta) — meta describes what was generated (for the evidence)."""
    trait0 = force_trait or rng.choice(["Debug", "Clone", "PartialEq", "Hash", "Ord", "PartialOrd", "Default", "Copy", "Eq", "Clone+Copy", "PartialEq+Eq",
                                        "Ord+PartialOrd", "Into", "Deref", "Deref+DerefMut",
                                        # a trait next to an educed supertrait that has a handler (and bounds) of its own
                                        "PartialOrd+PartialEq"])
    lifetimes = rng.choice([[], [], ["'a"], ["'a", "'b: 'a"]])
    n_ty = rng.randint(1, 3)
    if trait0.startswith("Deref"):
        lifetimes, n_ty = [], 1          # one field carries the only parameter
    ty_names = ["T", "U", "V"][:n_ty]
    ty_params = []
    for j, n in enumerate(ty_names):
        r = rng.random()
        if r < 0.25:
            ty_params.append("%s: Clone" % n)
        elif r < 0.4 and j == n_ty - 1:
            ty_params.append("%s = u8" % n)
        elif r < 0.5 and j == n_ty - 1:
            ty_params.append("%s: Copy = u8" % n)
        else:
            ty_params.append(n)
    consts = rng.choice([[], [], ["const N: usize"], ["const N: usize", "const M: usize = 3"]])
    if trait0.startswith("Deref"):
        consts = []
    has_default = any("=" in p for p in ty_params + consts)
    if has_default and consts and "=" not in consts[-1] and any("=" in p for p in ty_params):
        consts = []          # defaults must be trailing
    plist = ty_params + consts
    if rng.random() < 0.3:
        # any order of type and const parameters is legal; those with defaults stay last
        nodef = [p for p in plist if "=" not in p]
        rng.shuffle(nodef)
        plist = nodef + [p for p in plist if "=" in p]
    generics = "<%s>" % ", ".join(lifetimes + plist)
    where = rng.choice([[], [], ["T: Sized"], ["T: Sized", "%s: core::fmt::Debug" % ty_names[-1]]])
    lt = "'a" if lifetimes else "'static"
    n_name = "N" if consts else "2"

    def field_ty(p):
        return rng.choice([p, p, "Option<%s>" % p, "Vec<%s>" % p, "core::marker::PhantomData<%s>" % p, "[%s; %s]" % (p, n_name),
                           "(%s, u8)" % p, "&%s %s" % (lt, p), "u8", "Box<%s>" % p])
    kind = rng.choice(["struct", "enum", "struct", "enum", "struct", "enum", "struct", "enum", "union"])
    trait = trait0
    if kind == "union" and trait not in ("Debug", "Clone", "PartialEq", "Hash", "Copy", "Eq", "Clone+Copy", "PartialEq+Eq", "Default"):
        kind = "struct"
    traits = trait.split("+")
    main = traits[0]
    # bound mode
    mode = rng.choice(["auto", "auto", "all", "custom", "custom2", "disabled", "disabled2", "autotrue"])
    bp = {"auto": None, "all": "bound(*)", "custom": rng.choice(["bound(T: Copy)", 'bound = "T: Copy"', 'bound("T: Copy")', 'bound = "T: Copy,"', "bound(T: Copy,)",
                                              # a predicate list may begin with any type, a raw pointer included (string spellings only:
                                              # in the list spelling `*` is the all-parameters mode)
                                              'bound = "*const T: Copy"', 'bound("*mut T: Copy, T: Copy")']),
          "custom2": rng.choice(["bound(T: Copy, %s: Clone)" % ty_names[-1], 'bound = "T: Copy, %s: Clone"' % ty_names[-1], 'bound = "T: Copy, %s: Clone,"' % ty_names[-1]]),
          "disabled": rng.choice(["bound = false", "bound(false)"]), "disabled2": rng.choice(['bound = ""', "bound()", 'bound = " "']),
          "autotrue": rng.choice(["bound = true", "bound(true)"])}[mode]
    shape = rng.choice(["tuple", "named"])
    if kind == "union":
        shape = "named"
        if main in ("Debug", "PartialEq", "Hash"):
            mode, bp = "auto", None          # byte-wise impls behind `unsafe` take no bound parameter
    nf = rng.randint(1, 4)
    fields = []
    used = set()
    for j in range(nf):
        p = ty_names[j % n_ty]
        used.add(p)
        fields.append(field_ty(p))
    for p in ty_names:                       # every parameter is used by some field
        if p not in used:
            fields.append("core::marker::PhantomData<%s>" % p)
    for l in lifetimes:
        if not any("'a" in f for f in fields):
            fields.append("&'a u8")
        if "'b" in l and not any("'b" in f for f in fields):
            fields.append("&'b u8")
    if consts and not any("N" in f.split(";")[-1] for f in fields if ";" in f):
        fields.append("[u8; N]")
    if len(consts) > 1:
        fields.append("[u8; M]")
    fattrs = [""] * len(fields)
    if kind == "union":
        if main == "Default":
            fattrs[rng.randrange(len(fields))] = "#[educe(Default)]"
    elif main in ("Debug", "PartialEq", "Hash", "Ord", "PartialOrd"):
        for j in range(len(fields)):
            r = rng.random()
            if r < 0.25:
                fattrs[j] = "#[educe(%s(ignore))]" % main
            elif r < 0.45:
                fattrs[j] = "#[educe(%s(method(m)))]" % main
    elif main == "Clone" and ("Copy" not in traits or kind == "enum"):
        # with Copy a custom method is accepted on enums only (the struct handler refuses it by design)
        for j in range(len(fields)):
            if rng.random() < 0.3:
                fattrs[j] = "#[educe(Clone(method(m)))]"
    elif main == "Default" and kind == "struct":
        for j in range(len(fields)):
            if rng.random() < 0.4:
                fattrs[j] = "#[educe(Default(expression = m()))]"
    if main == "Deref":
        fields, fattrs = fields[:1], [""]
        bp = None
    if main == "Into":
        target = rng.choice(["u8", "String", "&'static str", "&str", "&'static [u8]", "&[u8]"])
        meta = "Into(%s%s)" % (target, (", " + bp) if bp else "")
        fattrs = [""] * len(fields)
        # the marker may spell a reference target with or without `'static`
        mspell = rng.choice([target, target.replace("&'static ", "&"), target.replace("&", "&'static ") if "'static" not in target else target])
        fattrs[rng.randrange(len(fields))] = "#[educe(Into(%s%s))]" % (mspell, rng.choice(["", ", method(m)"]))
        metas = [meta]
    else:
        metas = []
        for t in traits:
            # the companion of a coupled pair takes no bound of its own
            if kind == "union" and t in ("Debug", "PartialEq", "Hash"):
                metas.append("%s(unsafe)" % t)
            elif bp and t == main:
                metas.append("%s(%s)" % (t, bp))
            else:
                metas.append(t)
    rng.shuffle(metas)

    def fs(names):
        if shape == "named":
            return ", ".join("%s f%d: %s" % (a, j, t) for j, (a, t) in enumerate(zip(fattrs, fields)))
        return ", ".join("%s %s" % (a, t) for a, t in zip(fattrs, fields))
    # the where-clause as written: plain, with a trailing comma (what rustfmt writes for a multi-line clause), or - now
    # and then - a bare `where` without any predicate (legal)
    if where:
        w = " where %s%s" % (", ".join(where), rng.choice(["", "", ","]))
    else:
        w = " where" if rng.random() < 0.08 else ""
    body = ("{ %s }" % fs(True)) if shape == "named" else "(%s)" % fs(False)
    attrs = "#[educe(%s)]" % ", ".join(metas) if rng.random() < 0.5 else "\n".join("#[educe(%s)]" % m for m in metas)
    if kind == "union":
        src = "#[derive(Educe)]\n%s\nunion G%d%s%s %s" % (attrs, i, generics, w, body)
    elif kind == "struct":
        src = "#[derive(Educe)]\n%s\nstruct G%d%s%s%s%s" % (attrs, i, generics, (w + " " + body) if shape == "named" else body, "" if shape == "named" else w, "" if shape == "named" else ";")
    else:
        vattr = "#[educe(Default)] " if main == "Default" else ""
        src = "#[derive(Educe)]\n%s\nenum G%d%s%s { %sA%s%s }" % (attrs, i, generics, w, vattr, body, "" if main in ("Deref", "Into") else ", B")
        if main == "Default" and any(fattrs):
            src = src.replace("#[educe(Default(expression = m()))]", "")
    # now and then the type is called like a segment of one of its own field types (`struct PhantomData<T>(core::marker::
    # PhantomData<T>)`): the field type mentions the identifier of the type without referring to it
    self_named = 0
    if any("core::marker::PhantomData<" in f for f in fields) and rng.random() < 0.3:
        src = src.replace(" G%d<" % i, " PhantomData<", 1)
        self_named = 1
    return src, {"self_named": self_named, "trait": trait, "mode": mode, "kind": kind, "lifetimes": len(lifetimes), "type_params": n_ty, "consts": len(consts), "where": len(where)}
