"""Spelling groups for C14: each group is a list of derive inputs that are documented spellings of the
same request and must therefore expand to the same code."""
import itertools
from .offences import item, plain_fields, with_attr, SHAPES


def field_hosts(tattrs, n=3, ty="u8", kinds=("struct", "enum")):
    """(label, builder(field_attr_text, position) -> source)"""
    hosts = []
    for shape in SHAPES:
        if "struct" in kinds:
            hosts.append(("struct/" + shape, lambda a, pos, shape=shape: item("struct", "S", tattrs, [("", shape, [], with_attr(plain_fields(shape, n, ty), pos, a) if a else plain_fields(shape, n, ty))]), shape))
        if "enum" in kinds:
            def mk(a, pos, shape=shape):
                fs = with_attr(plain_fields(shape, n, ty), pos, a) if a else plain_fields(shape, n, ty)
                return item("enum", "E", tattrs, [("A", "tuple", [], plain_fields("tuple", 1, ty)), ("B", shape, [], fs)])
            hosts.append(("enum/" + shape, mk, shape))
    return hosts


def generate():
    """Yields (kind of equivalence, [sources])."""
    # ---- ignore / not ignored, every trait that has it
    for t in ["PartialEq", "Hash", "PartialOrd", "Ord", "Debug"]:
        yes = ["%s(ignore)" % t, "%s(ignore = true)" % t, "%s(ignore(true))" % t, "%s = false" % t]
        no = [None, "%s(ignore = false)" % t, "%s(ignore(false))" % t, "%s = true" % t]
        for label, mk, shape in field_hosts(["#[educe(%s)]" % t]):
            for pos in (0, 1, 2):
                yield ("ignore spellings", [mk("#[educe(%s)]" % a, pos) for a in yes])
                yield ("not-ignored spellings", [mk("#[educe(%s)]" % a if a else None, pos) for a in no])
    # ---- method: token path / string path, `=` / list
    for t in ["PartialEq", "Hash", "Ord", "PartialOrd", "Debug", "Clone"]:
        for path in ["m", "a::b::m", "Helper::<u8>::m"]:
            forms = ["%s(method(%s))" % (t, path), "%s(method = %s)" % (t, path), '%s(method = "%s")' % (t, path), '%s(method("%s"))' % (t, path)]
            if "<" in path:
                forms = [forms[0], forms[2], forms[3]]           # `method = Helper::<u8>::m` is an expression path too
                forms.append("%s(method = %s)" % (t, path))
            for label, mk, shape in field_hosts(["#[educe(%s)]" % t]):
                yield ("method spellings", [mk("#[educe(%s)]" % a, 1) for a in forms])
    # ---- rank
    for t in ["Ord", "PartialOrd"]:
        for r in ["3", "0", "-3", "9223372036854775807", "-9223372036854775805"]:
            forms = ["rank = %s" % r, "rank(%s)" % r, 'rank = "%s"' % r, 'rank("%s")' % r]
            for label, mk, shape in field_hosts(["#[educe(%s)]" % t]):
                yield ("rank spellings", [mk("#[educe(%s(%s))]" % (t, f), 2) for f in forms])
        # the limits of isize, with another parameter after / before the rank (field 0 gets an explicit rank so that
        # isize::MIN, its default, stays free)
        for r in ["-9223372036854775808", "9223372036854775807", "-1"]:
            forms = ["rank = %s" % r, "rank(%s)" % r, 'rank = "%s"' % r, 'rank("%s")' % r]
            for pre, post in [("", ""), ("", ", method = m"), ("", ", ignore = false"), ("method(m), ", "")]:
                for shape in SHAPES:
                    fs0 = with_attr(plain_fields(shape, 3, "u8"), 0, "#[educe(%s(rank = 5))]" % t)
                    yield ("rank spellings (limits of isize, next to other parameters)",
                           [item("struct", "S", ["#[educe(%s)]" % t], [("", shape, [], with_attr(fs0, 2, "#[educe(%s(%s%s%s))]" % (t, pre, f, post)))]) for f in forms])
        # integer notations of one value (hex, binary, octal, digit separators, suffixes), alone and before / after other parameters
        for v, notations in [(16, ["16", "0x10", "0b1_0000", "0o20", "16isize", "1_6", "16_isize"]),
                             (-16, ["-16", "-0x10", "-0b1_0000", "-0o20", "-16isize", "-1_6"]),
                             (-4096, ["-4096", "-4_096", "-0x1000", "-0x10_00", "-4096i64"])]:
            forms = ["rank = %s" % n for n in notations] + ["rank(%s)" % n for n in notations] + ['rank = "%d"' % v]
            for pre, post in [("", ""), ("", ", method = m"), ("", ", ignore = false"), ("method(m), ", ""), ("ignore = false, ", ", method(m)")]:
                for shape in SHAPES:
                    yield ("rank spellings (integer notations)",
                           [item("struct", "S", ["#[educe(%s)]" % t], [("", shape, [], with_attr(plain_fields(shape, 3, "u8"), 1, "#[educe(%s(%s%s%s))]" % (t, pre, f, post)))]) for f in forms])
        # both traits educed: the attribute may be carried by either
        for label, mk, shape in field_hosts(["#[educe(PartialOrd, Ord)]"]):
            yield ("Ord/PartialOrd carrier", [mk("#[educe(%s(rank = 1, method(m)))]" % c, 1) for c in ("Ord", "PartialOrd")])
    for label, mk, shape in field_hosts(["#[educe(PartialEq, Eq)]"]):
        yield ("PartialEq/Eq carrier", [mk("#[educe(%s(ignore))]" % c, 1) for c in ("PartialEq", "Eq")])
        yield ("PartialEq/Eq carrier", [mk("#[educe(%s(method(m)))]" % c, 0) for c in ("PartialEq", "Eq")])
    # ---- Debug names
    custom = ["Debug = X", "Debug(name = X)", "Debug(name(X))", "Debug(rename = X)", "Debug(rename(X))", 'Debug(name = "X")', 'Debug(name("X"))',
              'Debug = "X"', 'Debug(rename = "X")']
    disable = ["Debug(name = false)", "Debug(name(false))", 'Debug(name = "")', "Debug(rename = false)", 'Debug(rename(""))']
    enable = ["Debug(name = true)", "Debug(name(true))", "Debug(rename = true)"]
    for shape in SHAPES:
        fs = plain_fields(shape, 2)
        yield ("type name spellings", [item("struct", "S", ["#[educe(%s)]" % a], [("", shape, [], fs)]) for a in custom])
        yield ("type name spellings", [item("struct", "S", ["#[educe(%s)]" % a], [("", shape, [], fs)]) for a in disable])
        yield ("type name spellings", [item("struct", "S", ["#[educe(%s)]" % a], [("", shape, [], fs)]) for a in ["Debug"] + enable])
        vs = [("A", "unit", [], []), ("B", shape, [], fs)]
        yield ("enum name spellings", [item("enum", "E", ["#[educe(%s)]" % a], vs) for a in custom])
        yield ("enum name spellings", [item("enum", "E", ["#[educe(%s)]" % a], vs) for a in enable])
        yield ("enum name spellings", [item("enum", "E", ["#[educe(%s)]" % a], vs) for a in ["Debug"] + disable])
        for vpos in (0, 1):
            def mkv(a):
                v = [("A", "tuple", [], plain_fields("tuple", 1))]
                v.insert(vpos, ("B", shape, ["#[educe(%s)]" % a] if a else [], fs))
                return item("enum", "E", ["#[educe(Debug)]"], v)
            yield ("variant name spellings", [mkv(a) for a in custom])
            yield ("variant name spellings", [mkv(a) for a in disable])
            yield ("variant name spellings", [mkv(a) for a in [None] + enable])
            yield ("named_field spellings", [mkv(a) for a in ["Debug(named_field = true)", "Debug(named_field(true))"]])
            yield ("named_field spellings", [mkv(a) for a in ["Debug(named_field = false)", "Debug(named_field(false))"]])
        yield ("named_field spellings", [item("struct", "S", ["#[educe(%s)]" % a], [("", shape, [], fs)]) for a in ["Debug(named_field = true)", "Debug(named_field(true))"]])
        yield ("named_field spellings", [item("struct", "S", ["#[educe(%s)]" % a], [("", shape, [], fs)]) for a in ["Debug(named_field = false)", "Debug(named_field(false))"]])
    fcustom = ["Debug = x", "Debug(name = x)", "Debug(name(x))", "Debug(rename = x)", "Debug(rename(x))", 'Debug(name = "x")', 'Debug(rename("x"))', 'Debug = "x"']
    for label, mk, shape in field_hosts(["#[educe(Debug)]"]):
        if shape == "named":
            for pos in (0, 2):
                yield ("field name spellings", [mk("#[educe(%s)]" % a, pos) for a in fcustom])
    for label, mk, shape in field_hosts(["#[educe(Debug(named_field = true))]"], kinds=("struct",)):
        yield ("field name spellings", [mk("#[educe(%s)]" % a, 1) for a in fcustom])
    # names that are not plain identifiers when written as a string: raw identifiers
    for label, mk, shape in field_hosts(["#[educe(Debug)]"]):
        if shape == "named":
            yield ("field name spellings (raw identifier)", [mk("#[educe(%s)]" % a.replace("x", "r#type"), 1) for a in fcustom + ['Debug(name("x"))', 'Debug(rename = "x")']])
    for shape in SHAPES:
        fs = plain_fields(shape, 2)
        yield ("type name spellings (raw identifier)", [item("struct", "S", ["#[educe(%s)]" % a.replace("X", "r#Match")], [("", shape, [], fs)]) for a in custom + ['Debug(rename("X"))']])
    # ---- raw string literals wherever a string is taken (the value, not the token, is what counts)
    for label, mk, shape in field_hosts(["#[educe(Debug)]"]):
        if shape == "named":
            yield ("string literal kinds", [mk("#[educe(%s)]" % a, 1) for a in ['Debug(name = "x")', 'Debug(name = r"x")', 'Debug(name = r#"x"#)', 'Debug(rename(r"x"))', 'Debug = r"x"', "Debug = x"]])
    for t in ["PartialEq", "Hash", "Ord", "Clone", "Debug"]:
        for label, mk, shape in field_hosts(["#[educe(%s)]" % t]):
            yield ("string literal kinds", [mk("#[educe(%s)]" % a, 1) for a in ['%s(method = "a::m")' % t, '%s(method = r"a::m")' % t, '%s(method(r#"a::m"#))' % t, "%s(method(a::m))" % t,
                                                                               '%s(method = " a :: m ")' % t]])
    for t in ["Ord", "PartialOrd"]:
        for label, mk, shape in field_hosts(["#[educe(%s)]" % t]):
            yield ("string literal kinds", [mk("#[educe(%s)]" % a, 2) for a in ['%s(rank = "-3")' % t, '%s(rank = r"-3")' % t, '%s(rank(r#"-3"#))' % t, "%s(rank = -3)" % t]])
    for t in ["Debug", "Clone", "PartialEq", "Hash", "Ord", "Default"]:
        yield ("string literal kinds", [item("struct", "S", ["#[educe(%s(%s))]" % (t, b)], [("", "tuple", [], [([], None, "T"), ([], None, "U")])], "<T, U>")
                                        for b in ['bound = "T: Copy"', 'bound = r"T: Copy"', 'bound(r#"T: Copy"#)', "bound(T: Copy)"]])
    yield ("string literal kinds", [item("struct", "S", ["#[educe(%s)]" % a], [("", "named", [], plain_fields("named", 2))])
                                    for a in ['Debug(name = "X")', 'Debug(name = r"X")', 'Debug = r#"X"#', "Debug = X", 'Debug(rename(r"X"))']])
    # ---- bound
    for t in ["Debug", "Clone", "PartialEq", "Hash", "Ord", "PartialOrd", "Default", "Copy", "Eq"]:
        groups = [["bound(T: Copy)", 'bound = "T: Copy"', 'bound("T: Copy")', "bound(T: Copy,)", 'bound = "T: Copy,"', 'bound("T: Copy,")', 'bound = " T : Copy "'],
                  ["bound(T: Copy, U: Clone)", 'bound = "T: Copy, U: Clone"', 'bound("T: Copy, U: Clone")', 'bound = "T: Copy, U: Clone,"', "bound(T: Copy, U: Clone,)",
                   'bound = "T: Copy,U: Clone"'],
                  ["bound = false", "bound(false)", 'bound = ""', 'bound("")', "bound()", 'bound = " "', 'bound("  ")'],
                  [None, "bound = true", "bound(true)"],
                  ["bound(*)"]]
        for g in groups:
            srcs = []
            for b in g:
                meta = t if b is None else "%s(%s)" % (t, b)
                srcs.append(item("struct", "S", ["#[educe(%s)]" % meta], [("", "tuple", [], [([], None, "T"), ([], None, "U")])], "<T, U>"))
            if len(srcs) > 1:
                yield ("bound spellings", srcs)
    yield ("bound spellings", [item("struct", "S", ["#[educe(Into(u8, %s))]" % b], [("", "tuple", [], [([], None, "T")])], "<T>")
                               for b in ["bound(T: Copy)", 'bound = "T: Copy"', 'bound("T: Copy")', 'bound = "T: Copy,"', "bound(T: Copy,)"]])
    # ---- Default expressions and `new`
    for e in ["5", "1 + 1", "u8::MAX", "7u8"]:
        forms = ["Default = %s" % e, "Default(expression = %s)" % e, "Default(expr = %s)" % e, "Default(expression(%s))" % e, "Default(expr(%s))" % e]
        for label, mk, shape in field_hosts(["#[educe(Default)]"], kinds=("struct",)):
            yield ("expression spellings", [mk("#[educe(%s)]" % a, 1) for a in forms])
        yield ("expression spellings", [item("union", "U", ["#[educe(Default)]"], [("", "named", [], with_attr(plain_fields("named", 2, "u8"), 1, "#[educe(%s)]" % a))]) for a in forms])
    # every literal kind on a field of its natural type and on one that is not: the conversion is decided per kind
    for ty, e in [("&'static str", '"hi"'), ("String", '"hi"'), ("bool", "true"), ("Wrapper", "true"), ("char", "'c'"), ("Wrapper", "'c'"),
                  ("u8", "b'a'"), ("u16", "b'a'"), ("&'static [u8; 2]", 'b"ab"'), ("Wrapper", 'b"ab"'), ("f64", "1.5"), ("f32", "1.5"),
                  ("Wrapper", "1.5"), ("f64", "1.5f32"), ("f32", "1.5f32"), ("i64", "7"), ("Wrapper", "7"), ("u8", "7u16"), ("u16", "7u16"),
                  ("::core::primitive::u8", "7"), ("(u8)", "7")]:
        forms = ["Default = %s" % e, "Default(expression = %s)" % e, "Default(expr = %s)" % e, "Default(expression(%s))" % e, "Default(expr(%s))" % e]
        yield ("expression spellings", [item("struct", "S", ["#[educe(Default)]"], [("", "named", [], with_attr(plain_fields("named", 2, ty), 1, "#[educe(%s)]" % a))]) for a in forms])
    # a negative number is a literal for syn when it ends a `name = value` list and a negation everywhere else
    # (known finding: only the literal gets the automatic Into conversion)
    for ty, e in [("Wrapper", "-5"), ("Wrapper", "-1.5"), ("i64", "-5"), ("f64", "-1.5")]:
        forms = ["Default = %s" % e, "Default(expression = %s)" % e, "Default(expr = %s)" % e, "Default(expression(%s))" % e, "Default(expr(%s))" % e]
        yield ("negative number as expression" if ty == "Wrapper" else "expression spellings",
               [item("struct", "S", ["#[educe(Default)]"], [("", "named", [], with_attr(plain_fields("named", 2, ty), 1, "#[educe(%s)]" % a))]) for a in forms])
    yield ("negative number as expression", [item("struct", "S", ["#[educe(Default(%s))]" % a], [("", "tuple", [], plain_fields("tuple", 2))])
                                              for a in ["expression = -3, new", "new, expression = -3", "new, expression(-3)"]])
    tforms = ["expression = S(1, 2)", "expr = S(1, 2)", "expression(S(1, 2))", "expr(S(1, 2))"]
    yield ("expression spellings", [item("struct", "S", ["#[educe(Default(%s))]" % a], [("", "tuple", [], plain_fields("tuple", 2))]) for a in tforms])
    yield ("new spellings", [item("struct", "S", ["#[educe(Default(%s))]" % a], [("", "tuple", [], plain_fields("tuple", 2))]) for a in ["new", "new = true", "new(true)"]])
    yield ("new spellings", [item("struct", "S", ["#[educe(%s)]" % a], [("", "tuple", [], plain_fields("tuple", 2))]) for a in ["Default", "Default(new = false)", "Default(new(false))"]])
    # ---- one list / several attributes / any order of traits
    sets = [["Debug", "Clone", "PartialEq"], ["PartialEq", "Eq", "Hash"], ["PartialOrd", "Ord", "PartialEq", "Eq"], ["Clone", "Copy"],
            ["Debug(name = X)", "Default(new)", "Hash"], ["Into(u8)", "Into(u16)", "Debug"]]
    for ts in sets:
        variants = []
        for perm in itertools.islice(itertools.permutations(ts), 6):
            variants.append(["#[educe(%s)]" % ", ".join(perm)])
            variants.append(["#[educe(%s)]" % m for m in perm])
            variants.append(["#[educe(%s)]" % ", ".join(perm[:1]), "#[educe(%s)]" % ", ".join(perm[1:])])
        for shape in SHAPES:
            ty = "u8"
            yield ("attribute grouping and trait order", [item("struct", "S", a, [("", shape, [], plain_fields(shape, 1, ty))]) for a in variants])
            if not any(x.startswith("Default") for x in ts):
                yield ("attribute grouping and trait order", [item("enum", "E", a, [("A", shape, [], plain_fields(shape, 1, ty))]) for a in variants])
    fsets = [["Debug(ignore)", "PartialEq(ignore)", "Hash(method(m))"], ["Hash(ignore)", "Debug(name = x)"], ["Clone(method(m))", "Debug = false", "PartialEq = false"]]
    for ms in fsets:
        traits = sorted({m.split("(")[0].split(" ")[0] for m in ms})
        variants = []
        for perm in itertools.permutations(ms):
            variants.append("#[educe(%s)]" % ", ".join(perm))
            variants.append(" ".join("#[educe(%s)]" % m for m in perm))
            variants.append("/// doc\n #[educe(%s)] #[allow(dead_code)] #[educe(%s)]" % (", ".join(perm[:1]), ", ".join(perm[1:])))
        for label, mk, shape in field_hosts(["#[educe(%s)]" % ", ".join(traits)]):
            if shape == "named" or not any("name" in m for m in ms):
                yield ("attribute grouping and trait order at a field", [mk(a, 1) for a in variants])
    yield ("several Into markers at a field", [item("struct", "S", ["#[educe(Into(u16), Into(u32))]"],
           [("", "named", [], with_attr(plain_fields("named", 2, "u8"), 1, a) if True else None)])
           for a in ["#[educe(Into(u16), Into(u32))]", "#[educe(Into(u16))] #[educe(Into(u32))]", "#[educe(Into(u32))] #[educe(Into(u16))]", "#[educe(Into(u32), Into(u16))]"]])
    # ---- any order of parameters (unsafe stays first)
    porders = [("Ord", "field", ["rank = 1", "method(m)"]), ("Ord", "field", ["ignore = false", "rank = 1", "method(m)"]), ("PartialEq", "field", ["ignore = false", "method(m)"]),
               ("Hash", "field", ["method(m)", "ignore(false)"]), ("Debug", "namedfield", ["name = x", "method(m)", "ignore = false"]),
               ("Debug", "type", ["name = X", "named_field = false", "bound(T: Copy)"]), ("Default", "type", ["new", "bound(T: Copy)"]),
               ("Default", "type2", ["new", "expression = S(1, 2)"]), ("Debug", "variant", ["name = X", "named_field = true"]), ("Debug", "union", ["name = X"])]
    for t, where, ps in porders:
        metas = ["%s(%s)" % (t, ", ".join(p)) for p in itertools.permutations(ps)]
        if where in ("field", "namedfield"):
            for label, mk, shape in field_hosts(["#[educe(%s)]" % t]):
                if where == "namedfield" and shape != "named":
                    continue
                yield ("parameter order", [mk("#[educe(%s)]" % m, 1) for m in metas])
        elif where == "type":
            yield ("parameter order", [item("struct", "S", ["#[educe(%s)]" % m], [("", "named", [], [([], "a", "T")])], "<T>") for m in metas])
        elif where == "type2":
            yield ("parameter order", [item("struct", "S", ["#[educe(%s)]" % m], [("", "tuple", [], plain_fields("tuple", 2))]) for m in metas])
        elif where == "variant":
            yield ("parameter order", [item("enum", "E", ["#[educe(Debug)]"], [("A", "tuple", ["#[educe(%s)]" % m], plain_fields("tuple", 2))]) for m in metas])
        elif where == "union":
            yield ("parameter order", [item("union", "U", ["#[educe(%s)]" % m], [("", "named", [], plain_fields("named", 1, "u32"))])
                                       for m in ["Debug(unsafe, name = X)", "Debug(unsafe, rename(X))", 'Debug(unsafe, name = "X")', "Debug(unsafe, name(X))"]])
