"""Shared plumbing for the /verif checks: builds, audits, evidence, verdicts.

Everything is rebuilt from /repo's current working tree on every run (cargo fingerprints the
path dependency; the Lean project is rebuilt by lake, which is a no-op when nothing changed).
"""
import fcntl, hashlib, json, os, re, shutil, subprocess, sys, time

VERIF = os.path.dirname(os.path.dirname(os.path.abspath(__file__)))
REPO = os.environ.get("VERIF_REPO", "/repo")
BUILD = os.path.join(VERIF, ".build")
LEAN = os.path.join(VERIF, "lean")
HARNESS = os.path.join(VERIF, "harness")
TARGET = os.path.join(BUILD, "harness-target")
ALLOWED_AXIOMS = {"propext", "Classical.choice", "Quot.sound"}
ENV = dict(os.environ, CARGO_NET_OFFLINE="true", CARGO_TERM_COLOR="never")

TRUSTED_BASE = [
    "Lean 4.33 kernel; axioms limited to propext, Classical.choice, Quot.sound (audited per theorem with #print axioms on every run)",
    "hand-written Lean model of the generator (lean/EduceModel/Gen, Attr) tied to /repo by the correspondence runs of this check",
    "correspondence harness: generator (vlib/gen.py), renderer to Rust, canonicaliser and diff (vlib/b1.py), Lean driver (lean/Driver.lean)",
    "rustc 1.95 and the Rust semantics of the IR fragment (match / if-let / return / field access); syn/quote/proc-macro2 as linked by educe",
]


TRUSTED_EXTRA = {
    "C01": ["rustc as oracle for 'compiles without errors or warnings' (its type, borrow and lint checking is observed, not modelled)"],
    "C11": ["syn's split_for_impl / where-clause printing, read back from the real expansion (harness/vtool)"],
    "C12": ["syn's split_for_impl / where-clause printing, read back from the real expansion incl. helper impls nested in bodies (harness/vtool)"],
    "C13": ["classification of educe's diagnostics by message prefix (vlib/attr.py MESSAGE_CLASSES)"],
    "C14": ["the canonical oracle records of the spelling theorems are a small model of syn restricted to the documented token forms"],
    "C16": ["the translator's tables of hash-ordered collections, iterated maps and unknown macros (harness/vtool/src/extract.rs; fails closed on unknown macros such as thread_local!)"],
    "C17": ["the translator's table of panic-capable expressions, self-calls and open loops (extract.rs); syn's own parsers assumed panic-free up to the recorded known finding"],
    "C18": ["the translator's cfg walk and crate-path resolver (harness/vtool/src/gates.rs; fails closed on unresolvable paths)",
            "rustc as oracle per feature subset; cargo's feature unification emulated by the closure over Cargo.toml's [features]"],
    "C19": ["the reference-position analysis of Names.lean (binders, `.`/`::` continuations, attributes) is a syntactic approximation of Rust's name resolution",
            "rustc as oracle in hostile naming contexts"],
}


class Lock:
    def __init__(self, name):
        os.makedirs(BUILD, exist_ok=True)
        self.path = os.path.join(BUILD, name + ".lock")

    def __enter__(self):
        self.f = open(self.path, "w")
        fcntl.flock(self.f, fcntl.LOCK_EX)
        return self

    def __exit__(self, *a):
        fcntl.flock(self.f, fcntl.LOCK_UN)
        self.f.close()


def run(cmd, cwd=None, timeout=3600, env=None, input=None):
    p = subprocess.run(cmd, cwd=cwd, env=env or ENV, input=input, capture_output=True, text=True, timeout=timeout)
    return p.returncode, p.stdout, p.stderr


def seed():
    try:
        return int(os.environ.get("VERIF_SEED", "1"))
    except ValueError:
        return 1


# ---------------------------------------------------------------- Lean side

def lake_build(targets):
    """Build Lean targets. Returns (ok, log)."""
    with Lock("lake"):
        rc, out, err = run(["lake", "build"] + targets, cwd=LEAN, timeout=3600)
    return rc == 0, out + err


def theorem_names(prop_file):
    src = open(prop_file).read()
    # strip comments
    src = re.sub(r"/-.*?-/", "", src, flags=re.S)
    src = re.sub(r"--.*", "", src)
    return re.findall(r"^theorem\s+([A-Za-z_][A-Za-z0-9_'.]*)", src, flags=re.M)


FORBIDDEN = re.compile(r"\bsorry\b|\badmit\b|^axiom\s|native_decide|bv_decide|implemented_by|\bunsafe\s|maxHeartbeats\s+0", re.M)


def grep_forbidden():
    bad = []
    for root, _, files in os.walk(os.path.join(LEAN, "EduceModel")):
        for f in files:
            if not f.endswith(".lean"):
                continue
            p = os.path.join(root, f)
            src = open(p).read()
            src = re.sub(r"/-.*?-/", lambda m: "\n" * m.group(0).count("\n"), src, flags=re.S)
            src = re.sub(r"--.*", "", src)
            for m in FORBIDDEN.finditer(src):
                bad.append("%s:%d:%s" % (os.path.relpath(p, VERIF), src[: m.start()].count("\n") + 1, m.group(0).strip()))
    return bad


def audit_axioms(module, names, namespace="Educe"):
    """#print axioms on every named theorem; returns (ok, details, offending)."""
    os.makedirs(os.path.join(BUILD, "audit"), exist_ok=True)
    path = os.path.join(BUILD, "audit", module.replace(".", "_") + ".lean")
    with open(path, "w") as f:
        f.write("import %s\n" % module)
        for n in names:
            f.write("#print axioms %s.%s\n" % (namespace, n))
    with Lock("lake"):
        rc, out, err = run(["lake", "env", "lean", path], cwd=LEAN, timeout=1800)
    text = out + err
    offending = []
    seen = 0
    for m in re.finditer(r"'([^']+)' (does not depend on any axioms|depends on axioms: \[([^\]]*)\])", text):
        seen += 1
        if m.group(3):
            axs = {a.strip() for a in m.group(3).replace("\n", " ").split(",")}
            extra = axs - ALLOWED_AXIOMS
            if extra:
                offending.append((m.group(1), sorted(extra)))
    ok = rc == 0 and seen == len(names) and not offending
    return ok, text, offending, seen


def proof_obligations(prop_id, modules=None):
    """Build Props/<id>.lean (+ extra modules), audit it. Returns dict with ok, counts, log, broken."""
    t0 = time.time()
    modules = modules or ["EduceModel.Props.%s" % prop_id]
    res = {"ok": True, "obligations": 0, "discharged": 0, "broken": [], "log": "", "theorems": []}
    ok, log = regen_generated()
    if not ok:
        res["ok"] = False
        res["broken"].append("translator (vtool extract) failed on /repo/src: " + log[-400:])
    bad = grep_forbidden()
    if bad:
        res["ok"] = False
        res["broken"].append("forbidden constructs: " + "; ".join(bad[:5]))
    for mod in modules:
        path = os.path.join(LEAN, mod.replace(".", "/") + ".lean")
        names = theorem_names(path) if os.path.exists(path) else []
        res["obligations"] += len(names)
        res["theorems"] += names
        ok, log = lake_build([mod])
        if not ok:
            res["ok"] = False
            errs = re.findall(r"error: ([^\n]*)", log)
            res["broken"].append("lake build %s failed: %s" % (mod, "; ".join(errs[:4])))
            res["log"] += log[-4000:]
            continue
        m = re.search(r"^namespace\s+([\w.]+)", open(path).read(), flags=re.M)
        ok, text, offending, seen = audit_axioms(mod, names, namespace=m.group(1) if m else "Educe")
        if not ok:
            res["ok"] = False
            res["broken"].append("axiom audit of %s: %d/%d theorems printed, offending=%s" % (mod, seen, len(names), offending[:3]))
            res["log"] += text[-2000:]
        else:
            res["discharged"] += len(names)
        # thorough tier: the compiled module is re-checked by Lean's independent checker
        if os.environ.get("VERIF_TIER") == "thorough":
            with Lock("lake"):
                rc, out, err = run(["lake", "env", "leanchecker", mod], cwd=LEAN, timeout=3600)
            res.setdefault("leanchecker", []).append({"module": mod, "rc": rc})
            if rc != 0:
                res["ok"] = False
                res["broken"].append("leanchecker rejected %s: %s" % (mod, (out + err)[-300:]))
    res["wall_s"] = time.time() - t0
    return res


def build_driver():
    ok, log = lake_build(["educe_driver"])
    if not ok:
        raise RuntimeError("lean driver failed to build:\n" + log[-3000:])
    return os.path.join(LEAN, ".lake", "build", "bin", "educe_driver")


def run_driver(lines, timeout=3600):
    exe = build_driver()
    p = subprocess.run([exe], input="\n".join(lines) + "\n", capture_output=True, text=True, timeout=timeout)
    if p.returncode != 0:
        raise RuntimeError("lean driver crashed: rc=%d %s" % (p.returncode, p.stderr[-2000:]))
    return [json.loads(l) for l in p.stdout.splitlines() if l.strip()]


# ---------------------------------------------------------------- Rust side

_pm_cache = {}


def build_proc_macro(features=None, release=False):
    """Build /repo as the real proc-macro (guard off) and return the path of its .so. `release`: cargo's release profile,
    i.e. without debug assertions - the build a user's `cargo build --release` gives the macro."""
    key = "release" if release else "default"
    if key in _pm_cache:
        return _pm_cache[key]
    with Lock("cargo"):
        rc, out, err = run(["cargo", "build", "--offline", "-p", "pmhost", "--message-format=json"] + (["--release"] if release else []),
                           cwd=HARNESS, timeout=3600)
    so = None
    for line in out.splitlines():
        try:
            m = json.loads(line)
        except ValueError:
            continue
        if m.get("reason") == "compiler-artifact" and m.get("target", {}).get("name") == "educe" and "proc-macro" in m["target"].get("kind", []):
            so = m["filenames"][0]
    if rc != 0 or not so:
        raise BuildError("building /repo as a proc-macro failed", err[-4000:])
    _pm_cache[key] = so
    return so


class BuildError(Exception):
    def __init__(self, msg, log=""):
        super().__init__(msg)
        self.log = log


def build_vtool():
    with Lock("cargo"):
        rc, out, err = run(["cargo", "build", "--offline", "-p", "vtool"], cwd=HARNESS, timeout=3600)
    if rc != 0:
        raise BuildError("building the in-process harness (vtool) against /repo failed", err[-4000:])
    return os.path.join(TARGET, "debug", "vtool")


def regen_generated():
    """Translator: rewrite lean/EduceModel/Generated/*.lean from /repo/src. Returns (ok, log)."""
    try:
        exe = build_vtool()
    except BuildError as e:
        return False, str(e) + "\n" + e.log
    with Lock("lake"):
        rc, out, err = run([exe, "extract", REPO, os.path.join(LEAN, "EduceModel", "Generated")], timeout=600)
    return rc == 0, (out + err)[-3000:]


def scratch(prop_id):
    d = os.path.join(BUILD, "run", "%s-%d" % (prop_id, os.getpid()))
    shutil.rmtree(d, ignore_errors=True)
    os.makedirs(d)
    return d


def rustc_compile(src_path, out_path, so, extra=None, timeout=1800):
    """Compile one generated program against the real proc-macro. Returns (rc, diagnostics list)."""
    cmd = ["rustc", "--edition", "2021", "--error-format=json", "-C", "debuginfo=0", "-C", "opt-level=0",
           "--extern", "educe=" + so, "-o", out_path, src_path] + (extra or [])
    rc, out, err = run(cmd, timeout=timeout)
    diags = []
    for line in err.splitlines():
        try:
            diags.append(json.loads(line))
        except ValueError:
            pass
    return rc, diags


# ---------------------------------------------------------------- verdicts, evidence

def known_findings():
    p = os.path.join(VERIF, "known_findings.json")
    if not os.path.exists(p):
        return []
    return json.load(open(p)).get("findings", [])


def write_replay(prop_id, payload):
    os.makedirs(os.path.join(VERIF, "replays"), exist_ok=True)
    h = hashlib.sha1(json.dumps(payload, sort_keys=True).encode()).hexdigest()[:10]
    path = os.path.join(VERIF, "replays", "%s-%s.json" % (prop_id, h))
    payload = dict(payload, property=prop_id)
    json.dump(payload, open(path, "w"), indent=1, sort_keys=True)
    return path


def write_evidence(prop_id, tier, coverage, wall_s, violations, assumptions=None):
    os.makedirs(os.path.join(VERIF, "evidence"), exist_ok=True)
    ev = {
        "property_id": prop_id,
        "tier": tier,
        "seed": seed(),
        "level": "proof",
        "coverage": coverage,
        "assumptions": assumptions or [],
        "wall_s": round(wall_s, 2),
        "violations": violations,
    }
    json.dump(ev, open(os.path.join(VERIF, "evidence", prop_id + ".json"), "w"), indent=1)


def finish(prop_id, tier, t0, proof, tie, extra_assumptions=None):
    """Common verdict logic.

    proof: result of proof_obligations(); tie: dict with keys
      evaluations, distinct_nontrivial, rule, samples, failing (list of failing-input payloads: the
      implementation violates the property), broken (list of correspondence breaks without a failing
      input), known (list of strings for KNOWN-FINDING lines), extra (dict merged into coverage).
    """
    violations = []
    for k in tie.get("known", []):
        print("KNOWN-FINDING: property=%s %s" % (prop_id, k))
    if tie.get("failing"):
        f = tie["failing"][0]
        path = write_replay(prop_id, dict(f, kind="failing-input", tier=tier, seed=seed(),
                                          broken=proof["broken"] + tie.get("broken", [])))
        violations.append("VIOLATION property=%s replay=%s" % (prop_id, path))
    elif not proof["ok"] or tie.get("broken"):
        path = write_replay(prop_id, {"kind": "no-failing-input-found", "tier": tier, "seed": seed(),
                                      "broken": proof["broken"] + tie.get("broken", []),
                                      "log": proof.get("log", "")[-3000:], "details": tie.get("broken_details", [])[:5]})
        violations.append("VIOLATION property=%s replay=%s no-failing-input-found" % (prop_id, path))
    coverage = {
        "obligations": max(proof["obligations"], 1),
        "discharged": proof["discharged"],
        "checker_cmd": "cd /verif/lean && lake build EduceModel.Props.%s && lake env lean <#print axioms on each theorem> (vlib/common.py: proof_obligations)" % prop_id,
        "trusted_base": TRUSTED_BASE + TRUSTED_EXTRA.get(prop_id, []),
        "theorems": proof["theorems"],
        "leanchecker": proof.get("leanchecker", "quick tier: not run (thorough tier re-checks the compiled module with leanchecker)"),
        "evaluations": tie.get("evaluations", 0),
        "distinct_nontrivial": tie.get("distinct_nontrivial", 0),
        "rule": tie.get("rule", ""),
        "samples": tie.get("samples", [])[:6],
        "disagreements_checked": tie.get("evaluations", 0),
        "known_findings_seen": tie.get("known", []),
    }
    coverage.update(tie.get("extra", {}))
    write_evidence(prop_id, tier, coverage, time.time() - t0, len(violations), extra_assumptions)
    for v in violations:
        print(v)
    print("%s %s: theorems %d/%d, correspondence evaluations %d, distinct non-trivial %d, %.1fs -> %s" % (
        prop_id, tier, proof["discharged"], proof["obligations"], tie.get("evaluations", 0),
        tie.get("distinct_nontrivial", 0), time.time() - t0, "VIOLATION" if violations else "ok"))
    return 1 if violations else 0
