"""Regenerates /verif/MANIFEST.json from the table below (python3 -m vlib.manifest)."""
import json, os

VERIF = os.path.dirname(os.path.dirname(os.path.abspath(__file__)))

COMMON_NOTE = ("Trusted: Lean kernel (axioms propext/Classical.choice/Quot.sound only, audited every run); the hand-written Lean "
               "model is tied to /repo only through the correspondence run of this check (model validated behaviourally, not "
               "proved equal to the Rust source); Rust semantics of the emitted fragment; syn/quote/proc-macro2; rustc. ")

CLAIMS = {
 "C02": ("Theorem partialEq_correct: for all type definitions, ignore/method assignments, leaf behaviours and value pairs the generated "
         "eq body (model with named binders and patterns) evaluates and equals the reference semantics; corollaries: ignored fields are "
         "irrelevant, refl/symm/trans under the leaf laws. generated_calls_unchanged_* (partial_eq, eq): the absolute `::core::..` paths named by the handler's quote! templates, regenerated from /repo/src, are exactly the listed ones - the generated code calls nothing else. Tie: real macro + rustc on generated definitions, ==/!= compared three ways "
         "(impl/model/spec). End to end (Props/E2E.lean): partialEq_end_to_end / partialEq_handler_end_to_end - whenever `expand` (the PartialEq handler) accepts a struct or enum given as syn's records, the per-field configuration it read from the attributes (cmpScan_spec: field by field the result of the builder on that field's own attribute list) is what the item carries and the eq body generated for it equals the reference semantics for all values; eq_ignores_ignored_fields states the ignore clause on attributes. Tie B6: every observation is answered a second time from syn's records of the real tokens through attribute layer -> Bridge -> body.",
         COMMON_NOTE + "`!=` is the trait default `!eq`; the reading of `==` as `!ne` assumes lawful leaf `ne`.",
         "Lean 4 theorem by induction over the field list + differential correspondence of the model against the real macro"),
 "C03": ("Theorems cmp_correct (cmp and partial_cmp bodies equal the lexicographic reference in ascending rank, None exactly when an "
         "incomparable field comes first), visit_order_is_rank_order (BTreeMap model = merge sort by rank, default rank isize::MIN+index), "
         "accepted_ranks_distinct, both_educed_partial_cmp_is_some_cmp, lexCmp_refl/antisymm/trans under leaf laws. generated_calls_unchanged_* (ord, partial_ord, common/tools): the absolute `::core::..` paths named by the handler's quote! templates, regenerated from /repo/src, are exactly the listed ones - the generated code calls nothing else. Tie: real macro + "
         "rustc, cmp/partial_cmp on generated definitions with all rank spellings. End to end (Props/E2E.lean): ord_handler_end_to_end / partialOrd_handler_end_to_end / ord_end_to_end - acceptance by the Ord or PartialOrd handler yields the scan (ordScan_spec: ignore/method/rank per field from its own attributes, rank map without duplicates), the body exists (rankLoop_agrees) and equals the lexicographic reference; with both educed partial_cmp = Some(cmp). Tie B6 as for C02.",
         COMMON_NOTE + "rank values are modelled as unbounded Int (the isize range check of the parser belongs to the attribute layer, C13/C14).",
         "Lean 4 theorem (sorted-insertion = merge sort; induction over the visiting order) + differential correspondence"),
 "C04": ("Theorems cross_variant_by_discriminant / same_variant_by_fields (corollaries of cmp_correct) and discValues_explicit/implicit: "
         "different variants compare as their declared discriminants for every payload, same variant by fields alone; the model of the "
         "repaired code has no layout parameter, so independence from layout and neighbouring bytes is by construction. Tie: real macro + "
         "rustc over niche/ZST payloads x repr attributes x explicit discriminants, every comparison repeated inside #[repr(C)] wrappers "
         "with different trailing bytes. End to end (Props/E2E.lean): ord_cross_variant_end_to_end - for an enum accepted by the Ord handler, values of different variants compare as the declared discriminants read from the variants' own `= expr` tokens (any valuation of the expressions), whatever the payloads. Tie B6.",
         COMMON_NOTE + "the pinned tree violated this property (pointer-cast read of the tag); repaired by fix commit 45f1958, see known_findings.json.",
         "Lean 4 theorem + differential correspondence (value-level, incl. neighbour-byte repetition)"),
 "C05": ("Theorems hash_correct (the hash body feeds, for enums, the variant index and then every non-ignored field in declaration order through "
         "its method or own Hash — for every leaf behaviour, i.e. every hasher), agree_feeds_equal, different_variant_feeds_differ, "
         "feedFields_differ (injective under the explicit prefix-freeness hypothesis on hashed positions), eq_implies_same_feed_fields. "
         "Tie: real macro + rustc with a recording Hasher that logs every write_* call. End to end (Props/E2E.lean): hash_end_to_end / hash_handler_end_to_end - acceptance yields the scan and the hash body generated for it feeds the reference sequence. Tie B6.",
         COMMON_NOTE + "'whose own hashing distinguishes them' is formalised as prefix-freeness of the hashed positions' feed functions (explicit hypothesis, satisfiable: fixed-width writes).",
         "Lean 4 theorem + differential correspondence through a recording hasher"),
 "C07": ("Theorems clone_correct, cloneFrom_correct (same-variant path rewrites every field from the source's field, other path assigns a fresh "
         "clone), cloneFrom_is_clone_of_source (for every prior a, under the Clone::clone_from contract of the leaves), copy_clone_is_bitwise. "
         "Tie: real macro + rustc with an instrumented leaf type whose clone / clone_from are observably different and counted; all ordered "
         "(a, b) pairs incl. cross-variant. End to end (Props/E2E.lean): clone_end_to_end / clone_handler_end_to_end, useCopy_is_bitwise (the attribute layer's `useCopy`, which selects the bound trait, is the behavioural layer's `bitwise`). Tie B6.",
         COMMON_NOTE + "destination operands of one clone_from body are disjoint &mut borrows (each reads the original field); Copy-ness itself (that the Copy impl is emitted and accepted) is checked under C01/C11.",
         "Lean 4 theorem + differential correspondence with instrumented leaves"),
 "C06": ("Theorems debug_correct (for every accepted configuration and value the fmt body makes exactly the builder calls of the effective "
         "shape: builder kind, effective name incl. Enum::Variant, ordered entries with effective keys `_i`/rename, formatter and value), "
         "debug_output (both formatter modes), shownFields_positions (ignored absent, declaration order), derive_equiv_enum (parameter-free = "
         "#[derive(Debug)]). generated_calls_unchanged_* (hash): the absolute `::core::..` paths named by the handler's quote! templates, regenerated from /repo/src, are exactly the listed ones - the generated code calls nothing else. generated_calls_unchanged_* (debug): the absolute `::core::..` paths named by the handler's quote! templates, regenerated from /repo/src, are exactly the listed ones - the generated code calls nothing else. generated_calls_unchanged_* (clone, copy): the absolute `::core::..` paths named by the handler's quote! templates, regenerated from /repo/src, are exactly the listed ones - the generated code calls nothing else. Tie: real macro + rustc, {:?} and {:#?} strings over name/rename/named_field/ignore/method assignments; "
         "parameter-free definitions also against a #[derive(Debug)] twin. End to end (Props/E2E.lean): debug_struct_end_to_end / debug_enum_end_to_end / dbgScan_of_handler - acceptance by the Debug handler yields the type-, variant- and field-level configuration (each read from its own attribute list, the field `name` switch dictated by the `named_field` in force), the fmt body exists and its output is the builders' rendering of the effective shape in both modes. Tie B6.",
         COMMON_NOTE + "core::fmt's DebugStruct/DebugTuple/DebugMap/PadAdapter are modelled (Sem/FmtBuilders.lean) and validated by the same runs, not proved; derive-equivalence is proved for enums and observed for structs.",
         "Lean 4 theorem on builder calls + differential correspondence on output strings"),
 "C09": ("Theorems deref_correct (accepted => for every value `&*x`/`&mut *x` designates the sole field or the marked one; includes the "
         "wildcard-counted tuple pattern lemma matchTuple_replicate), pick_eq_designated / struct_refused_iff / variant_refused_iff (refused "
         "exactly when the designation is missing, duplicated or the variant is a unit), write_through_only_designated. generated_calls_unchanged_* (deref, deref_mut): the absolute `::core::..` paths named by the handler's quote! templates, regenerated from /repo/src, are exactly the listed ones - the generated code calls nothing else. Tie: real macro + rustc, "
         "pointer identity of `&*x` / `&mut *x` against every field's storage (or referent), fields changed after a write. End to end (Props/E2E.lean): deref_struct_end_to_end / deref_enum_end_to_end with derefLoop_pickLoop / derefPick_pick (the attribute layer's marker loop and the behavioural layer's are the same loop): the field index the item reports is the designated field of the reference semantics on the markers read from the fields' own attributes, and `&*x` designates it for every value. Tie B6. The type helpers are inside the model (Ty.ungroup / isRef / dereference, Attr/Syntax.lean; group_is_transparent, dereference_not_ref, dereference_of_not_ref); Deref::Target of the real impl is compared with the model's dereferenced type.",
         COMMON_NOTE + "the model returns the designated field index; that a reference-typed field yields its referent is Rust's deref coercion (observed, not modelled); Target type agreement across variants is rustc's check.",
         "Lean 4 theorem + differential correspondence by pointer identity"),
 "C10": ("Theorems into_correct (for every generated impl and value, x.into() is the field designated for T — sole field, else marked, else "
         "unique same-typed — through the marker's method / unchanged when already T / Into<T> otherwise), select_ok_iff / select_error_iff "
         "(the two selection loops = the designation function, refused exactly when not unique), items_targets (one impl per requested "
         "target, no other). generated_calls_unchanged_* (into): the absolute `::core::..` paths named by the handler's quote! templates, regenerated from /repo/src, are exactly the listed ones - the generated code calls nothing else. debug_asserts_pure (Props/Profile.lean, also an obligation of C02-C09 and C20): no debug_assert! of /repo/src calls a mutating method or assigns (regenerated table) - the macro does the same work when cargo's release profile compiles its debug assertions out. Tie: real macro + rustc with source/target types whose conversions are pairwise distinguishable. End to end (Props/E2E.lean): into_handler_end_to_end with intoSelect_select / intoLoop_markerLoop / intoSame_sameTypeLoop (the attribute layer's field selection for a target and the behavioural layer's are the same procedure, for every injective numbering of the normalised type strings): one item per requested target in the order of the sorted target map, and for each the generated impl returns the field designated by the reference semantics on the markers read from the fields' own attributes. Tie B6. The normalisation of target and field types (to_hash_type) is inside the model (Ty.hashTy; hashTy_of_refs, hashTy_of_not_ref) and computed by the driver from syn's type trees.",
         COMMON_NOTE + "types are compared by normalised token string as the code does (opaque ids in the model); the iteration order of the target map is an input of the model here and the subject of C16.",
         "Lean 4 theorem + differential correspondence on returned values"),
 "C08": ("Theorems default_correct (accepted => T::default() is the type-level expression, else the struct / marked-or-only variant / "
         "marked-or-only union field with each field = its expression or its type's default), ambiguous_refused (missing or duplicated "
         "designation is refused), new_eq_default, into_wrap_iff_not_natural (a bare literal is wrapped in Into::into exactly when the "
         "field type is not the literal's natural type) and non_literal_never_wrapped. generated_calls_unchanged_* (default, common): the absolute `::core::..` paths named by the handler's quote! templates, regenerated from /repo/src, are exactly the listed ones - the generated code calls nothing else. keepsBare_sound / keepsBare_complete / adjust_converts_iff: the model of auto_adjust_expr leaves a literal bare exactly when Rust's typing gives the literal the type as spelled (the model's decision is compared with the real tokens of every Default impl). Tie: real macro + rustc; oracle values are built "
         "independently of educe; unions compared by byte image. End to end (Props/E2E.lean, structs and enums): default_handler_end_to_end with defaultVariantLoop_variantLoop (the handler's loop over the variants and the behavioural generator's are the same loop on the flags read from the variants' own attributes), defFieldAttr_off / defVariantAttr_off (where the handler switched marker and expression off, the only acceptable Default attribute is the empty list, so reading the field with the expression switched on finds nothing), fromAttrs_ok_cases, runParams_invariant / runParams_all_disabled: acceptance yields the configuration read from the same tokens, the body exists and T::default() is the reference value. Tie B6.",
         COMMON_NOTE + "the value of a user expression is an input of the model (measured by rustc), the model decides which expression goes to which field and whether Into is applied; literal kind/suffix and the field type's token string are read by syn.",
         "Lean 4 theorem + differential correspondence against independently built values"),
 "C20": ("Theorems union_generated_iff_unsafe, union_eq_bytewise, union_hash_injective / union_hash_shape (length prefix + the bytes as one "
         "slice), union_debug_named / union_debug_bare, union_clone_bitwise, union_default_designated. Props/ListParse.lean: parseUnsafe_marked, unsafe_marker_first_only (UnsafePunctuatedMeta reports the marker exactly when the list starts with the bare keyword; anywhere else `unsafe` is read as a parameter of that name). Tie: real macro + rustc over unions "
         "of every size class initialised from byte patterns: == on all pairs, recorded hasher writes, {:?}/{:#?}. End to end (Props/E2E.lean): debug_union_end_to_end / eqLike_union_end_to_end / union_without_unsafe_refused - acceptance of a union by the Debug, PartialEq or Hash handler implies the `unsafe` marker was read from the attribute, and the emitted item is the byte-wise one; without it the handler answers unionWithoutUnsafe.",
         COMMON_NOTE + "the byte view (from_raw_parts over size_of::<Self>()) is taken as given: unions with padding are not generated because reading padding is undefined; the refusal without `unsafe` is proved on the model and tied to the code by the attribute-layer correspondence (C13).",
         "Lean 4 theorem + differential correspondence on byte patterns"),
 "C16": ("Theorems dispatch_perm and traits_membership_perm (the model's result is invariant under every reordering of the trait -> metas map: "
         "it is only queried by key and handlers only ask membership), into_order_independent (the Into impls are emitted in an order that is "
         "a function of the set of targets), and the generated-table lemma hashCollections_only_keyed (every HashMap/HashSet type occurring in "
         "/repo/src is one of the key-queried ones; regenerated from the source on every run). Tie: each input expanded repeatedly in one "
         "process and in several fresh processes (fresh hash seeds), all token streams and diagnostics compared; impl order compared with the model.",
         COMMON_NOTE + "determinism of syn/quote/proc-macro2 themselves is assumed; the translator's list of hash collections is syntactic (type paths named HashMap/HashSet).",
         "Lean 4 theorems + regenerated source table + repeated/in-process and cross-process expansion comparison"),
 "C17": ("Theorem expand_noPanic: for every feature set and every derive input (every oracle record) the model of derive_input_handler ends in "
         "items or a diagnostic, never at a panic site - composed from handler lemmas (debug/clone/marker/eqLike/ordLike/default/deref/into_"
         "Handler_noPanic, handlerFor_noPanic, dispatch_noPanic) over: no panic in the attribute layer for all oracle records — every value helper, the parameter loop (runParams_noPanic), every "
         "type/field builder, the attribute scans (scanMetas/scanAttrs/fromAttrs_noPanic) and the trait-map construction (collectTop_noPanic, "
         "collectTop_idents: every meta reaching a handler is a single identifier, so all `get_ident().unwrap()` are safe; collectTop_nonempty: "
         "`meta[0]` is safe); termination by structural recursion of every model function; regenerated site table lemmas panicSites_known_shapes / "
         "panicSites_placed (every unwrap/expect/index/unreachable!/insert_str/debug_assert of /repo/src has a known shape in a known place). "
         "Tie: adversarial attribute forms and token-level mutations run in-process under catch_unwind, outcome kind compared with the model, "
         "panics confirmed through rustc; deep-nesting probe under rustc.",
         COMMON_NOTE + "syn's own parsers and the `parse2(quote!(..#user tokens..)).unwrap()` round-trips are assumed panic-free and exercised by the mutation stream; stack overflow inside syn on ~1000-deep nesting is an open known finding.",
         "Lean 4 theorems over oracle records + regenerated panic-site table + in-process mutation stream with rustc confirmation"),
 "C13": ("Theorems (never accepted, wherever the offence stands): parameter_twice_refused (same switch in any spelling, e.g. name/rename), "
         "bad_parameter_refused (unknown or position-disabled parameter), scanMetas_offence_refused (unknown trait / trait not educed at a field or "
         "variant), scanMetas_twice_refused (trait or its synonym twice at one position), collectTop_twice_refused (trait twice on the type, Into "
         "exempt), into_target_twice_refused, insertRank_present_none, union_needs_unsafe_eqLike, union_unsupported_ordLike / _deref; designation "
         "clauses: deref_no_marker_refused / deref_two_markers_refused, default_no_variant_refused / default_two_variants_refused, "
         "default_union_no_field_refused / default_union_two_fields_refused (via the loop specifications derefLoop_spec, defaultVariantLoop_spec, "
         "defaultFieldLoop_spec over the number of markers), and at the behavioural level Props/C08-C10 (ambiguous_refused, struct_refused_iff, "
         "variant_refused_iff, struct_target_refused_iff). debug_asserts_pure (Props/Profile.lean, also an obligation of C02-C09 and C20): no debug_assert! of /repo/src calls a mutating method or assigns (regenerated table) - the macro does the same work when cargo's release profile compiles its debug assertions out. Tie: ~1900 "
         "invalid-by-construction inputs (every clause x shapes x positions x spellings) must be refused by the real macro in-process and by "
         "the model with the same diagnostic class; valid inputs must be accepted by both.",
         COMMON_NOTE + "diagnostic classes are obtained from message texts by a fixed prefix table (vlib/attr.py); the handler-level clauses (unit variant, nameless Debug) are covered by the correspondence, not by a separate theorem.",
         "Lean 4 theorems over oracle records + invalid-by-construction correspondence (B4)"),
 "C14": ("Theorems over canonical leaves: bool_spellings (ignore / ignore = true / ignore(true)), ident_spellings, name_spellings, "
         "name_off_spellings, path_spellings, int_spellings (int, string, negative literal), bound_spellings, bound_off_spellings, expr_spellings "
         "(p = v and p(v); token and string-literal values); name_rename_alias, expression_expr_alias; cmp_shorthand, debug_type_shorthand, "
         "debug_field_shorthand, default_field_shorthand (Trait = X shorthands); split_attribute_same + scanMetas_append + "
         "foreign_attribute_skipped (one list vs several attributes); adjacent_params_swap (parameter order); trait order is C16's dispatch_perm. "
         "Tie: ~400 spelling groups, every member accepted and all real token streams within a group identical (in-process), model agrees.",
         COMMON_NOTE + "the canonical leaves are a tiny model of syn restricted to the documented token forms; that real syn yields these records is re-validated on every run because the model is fed syn's actual records; general parameter permutations are proved for adjacent swaps under the stated commutation premises.",
         "Lean 4 theorems over canonical oracle records + spelling-group correspondence (B3)"),
 "C15": ("Theorems scanMetas_skip_other / scanMetas_only_mine / scanMetas_depends_on_own_metas (every attribute scanner's result is a function of "
         "the metas of its own trait; metas of other traits are only validated as trait names), scanAttrs_skip_other_attribute, "
         "copy_handler_consults_clone_only; handler level: handlerFor_depends_on_partner_only with debug/eqLike/ordLike/clone/marker/default/"
         "deref/intoHandler_traits (replace the set of educed traits by any set that agrees on the traits named in field / variant "
         "attributes and on the documented partner: the trait's items are identical; Debug, Hash, Default, Deref, DerefMut, Into need no "
         "membership agreement at all). Ctx.traits is a membership function so order / re-configuration of other traits cannot be "
         "observed (with C16 dispatch_perm). Props/ListParse.lean (the model of educe's list parsers over syn's elements): parseTerminated_render / parseTerminated_only_rendered (the accepted lists are exactly the comma-separated renderings of Meta elements), trailing_comma_irrelevant. Tie: twin definitions from all "
         "behavioural generators: alone / with 1-3 other traits and their own attributes on the same fields / with one educed trait and all "
         "its metas removed; every non-coupled impl's real token stream must be identical across the twins, model agrees.",
         COMMON_NOTE + "that the real handlers read nothing else is tied by the twin correspondence, not by a source-level data-flow analysis.",
         "Lean 4 theorems over scanner model + twin-definition correspondence (B3)"),
 "C18": ("(b) over the table regenerated from /repo/src + Cargo.toml (Generated/Features.lean: every #[cfg] on modules, items, statements, "
         "match arms, variants; every reference to a crate module / gated re-export / `Trait::X` variant / cfg'd local resolved to (context "
         "condition, provided condition)): gates_closed_all (in all 2^12 configurations every compiled reference points to something compiled; "
         "decide +kernel), gated_modules_used_all, variants_/from_path_/dispatch_gated_by_own_feature (the three per-trait tables are gated by "
         "exactly the trait's own feature, in the model's dispatch order), features_independent, compile_error_iff_no_feature. (a) over the "
         "expansion model: expand_subset_eq_full (no disabled trait named anywhere => expand F d = expand All d; congruence through every "
         "handler), disabled_trait_first_is_unsupported, disabled_trait_never_accepted, metaOK_iff, dispatch_filter. Tie: rustc --emit=metadata "
         "of /repo/src/lib.rs per feature subset (quick 151, thorough all 4096; 0 errors, 0 warnings; empty set = the explicit compile_error); "
         "for 6 (40) subsets the real proc-macro is linked and its expansions (rustc -Zunpretty=expanded) of a pool naming only enabled traits "
         "are compared with the all-features build; disabled traits must be refused with `unsupported trait` listing exactly the enabled set.",
         COMMON_NOTE + "rustc's name resolution and lints are observed (all subsets in the thorough tier), not modelled beyond the gate graph; the resolver in the translator (harness/vtool/src/gates.rs) is trusted and fails closed on unresolvable crate paths; cargo's feature unification is emulated by the closure over Cargo.toml's feature table.",
         "Lean 4 theorems (decide +kernel over all cfg configurations of the regenerated gate table; congruence proof over the expansion model) + per-subset rustc builds and subset-vs-full expansion comparison"),
 "C19": ("(i) templates_closed: over the table of all 280 quote! templates regenerated from /repo/src, every identifier in reference position "
         "is bound by a template of the same handler (decide +kernel); closed_env_independent / generated_code_env_independent: such a template "
         "resolves identically in every derive-site environment. (ii) binder_formats_no_clash over the regenerated format_ident! table + "
         "noClash_sound (two binder formats of one handler never produce the same name from different fields), pickName_fresh / pickName_first with hasherName_fresh and "
         "debugFieldName_fresh (the hasher type parameter and the Debug wrapper struct are the first candidate H, H_, ... / Educe__DebugField, "
         "Educe__DebugField_, ... that neither a generic parameter nor - for the struct - the type itself uses). (iii) "
         "method_calls_only_on_fmt_locals: over the regenerated templates, every method-call expression is a core::fmt builder call on `f` or "
         "`builder` (a call written `a.cmp(b)` would be resolved through the user's type, inherent methods first). binder_formats_unchanged pins the regenerated table of format_ident! formats handler by handler. Tie: rustc as oracle - five definition families x all traits x name "
         "assignments drawn from the templates' identifier inventory, primitive names and binder-collision families, compiled inside a module in "
         "which every template identifier, prelude name, primitive type, `core`/`std` and macro name means something else, results compared with "
         "the neutral twin, with decoy inherent methods on every type and every third assignment through a macro_rules! macro with "
         "`$x:ident` fragments; #![no_std] build; in-process expansions of definitions named like the candidates against pickName (driver op "
         "pickname); const-parameter probe (known finding).",
         COMMON_NOTE + "rustc's name resolution is the oracle for the compile half; the reference-position analysis (Names.lean: after `.`/`::`, attributes, binders) is a syntactic approximation validated by the hostile-context runs; one known finding (const parameter named like a generated local) is recorded rather than repaired.",
         "Lean 4 theorems (decide +kernel over regenerated template and binder-format tables; soundness lemmas) + hostile-naming-context compile-and-run correspondence"),
 "C01": ("The generator-dependent part of `compiles`, clause by clause: eq_/cmp_/hash_/clone_body_well_scoped (for every definition, attribute "
         "assignment and value the generated body evaluates without meeting an unbound binder, a wrong-arity pattern or a missing field - "
         "corollaries of the C02-C07 correctness theorems), copy_impl_covers_fields_with_method (the Copy impl sharing the Clone header asks "
         "every field type to be Copy also when a custom clone method removed the field from the Clone predicates - the repaired defect, with a "
         "kernel-checked instance), together with Props.C11 (obligations covered by predicates) and Props.C19 (binders distinct, paths closed). "
         "Tie: 1200 definitions from the ten behavioural generators + 1500 generic definitions (lifetimes, type/const parameters, real "
         "where-clause bounds incl. associated types, raw identifiers, all repr forms, empty and single-variant enums, random trait sets, "
         "ignore/rank/name/method/Default attributes) compiled as library crates against the real proc-macro: any error or non-harness "
         "warning located in a definition is its failure; the generic pool is also expanded in-process (must be accepted; outcome model agrees).",
         COMMON_NOTE + "PARTIAL by nature: rustc's type, borrow and lint checking of the generated items is observed through the compile runs, not modelled; the theorems cover well-scopedness, predicate coverage of the Copy companion, binder distinctness and path closedness only. Warnings whose lint rustc suppresses inside external-macro expansions cannot be observed.",
         "Lean 4 theorems (well-scoped bodies, Copy-predicate coverage; with C11/C19) + compile correspondence against rustc over generated definitions"),
 "C11": ("Theorems auto_preds_shape / auto_preds_only_collected (automatic mode appends one `FieldTy: Trait` per collected type plus the "
         "supertraits on Self, nothing else), struct_body_delegates_exactly + delegated_types_and_operands (the collected types are exactly the "
         "fields on which the generated PartialEq body calls the trait's own method — two independently written parts linked; the same link for "
         "enum arms eq_tuple_arm_/eq_named_arm_delegates_exactly, for Hash hash_struct_body_/hash_tuple_arm_/hash_named_arm_delegates_exactly and "
         "for Clone clone_struct_body_delegates_exactly incl. clone_from; for Ord / PartialOrd rankLoop_agrees_with_rankFields: the attribute "
         "layer's ranked field list, from which the predicates are computed, is the behavioural layer's, which the comparison body visits), "
         "ignored_and_method_fields_not_bound, companion_same_predicates / companion_applies_iff (Eq with PartialEq, Copy with Clone share the "
         "primary's predicates). Tie: generic definitions x all traits x ignore/method/expression choices expanded in-process; every real impl's "
         "appended predicates compared with the model's (which handler collects which field types, supertraits, companions).",
         COMMON_NOTE + "applicability is read as 'all where-predicates hold' (rustc's trait solver is not modelled); the body/bounds link is proved for the PartialEq struct generator and validated by the correspondence for the other handlers; compile-time instantiation probes are not built yet.",
         "Lean 4 theorems + impl-header correspondence (B2)"),
 "C12": ("Theorems header_reproduces_generics (impl generics, self type and the user's where-clause are the type's own for every item), "
         "bound_all_constrains_type_params / bound_all_only_type_params / lifetimes_and_consts_never_bound, bound_custom_adds_given, "
         "bound_disabled_adds_nothing, bound_off_spellings_add_nothing. Tie: generic parameter lists (lifetimes with bounds, bounded and defaulted "
         "type parameters, const parameters with defaults, where-clauses) x every trait x every bound spelling incl. per-target bounds on Into; "
         "real impl generics / self type / where-clause compared in-process.",
         COMMON_NOTE + "split_for_impl (dropping defaults, ordering) is syn's and is taken from syn's own output for the input type.",
         "Lean 4 theorems + impl-header correspondence (B2)"),
}

ENGINES = [
    {"name": "translator", "path": "harness/vtool/src/extract.rs", "kind_free_text": "regenerates lean/EduceModel/Generated/*.lean (quote! templates, panic-capable expressions, builder literals, cfg gates, hash collections) from /repo/src on every run"},
    {"name": "in-process", "path": "vlib/attr.py", "kind_free_text": "hooked rlib view of /repo driven by vtool expand: outcome / impl headers / token streams vs the Lean attribute-layer model fed with syn's oracle records"},
    {"name": "lean-model", "path": "lean/", "kind_free_text": "Lean 4 model of the generator (Gen), semantics (Sem), reference semantics (Spec), theorems (Props); lean_exe driver"},
    {"name": "b1-behavioural", "path": "vlib/b1.py", "kind_free_text": "real proc-macro + rustc on generated definitions; three-way diff impl/model/spec"},
]

PENDING = "check under construction in this round (model and correspondence not committed yet); not a claim that the technique cannot apply"


def main():
    props = [json.loads(l) for l in open(os.path.join(VERIF, "properties.jsonl"))]
    m = {
        "version": 1,
        "setup_cmd": "bin/setup",
        "hooks": {"guard": "--cfg magiclen_educe_verif",
                  "enable": "harness/educe_inproc/build.rs emits cargo:rustc-cfg=magiclen_educe_verif for the rlib view of /repo/src/lib.rs; the real proc-macro used by the rustc runs is built with the guard off",
                  "baseline_off_cmd": "bin/baseline_off", "source_commits": ["7c1172d"], "add_only": True},
        "engines": [dict(e, serves_properties=sorted(CLAIMS)) for e in ENGINES],
        "checks": [], "not_applicable": [],
        "notes": "Every check: (1) lake build of the property's theorems + #print axioms audit, (2) correspondence between the Lean model's executable definitions and the real macro built from /repo's working tree, (3) on any break, a search for a failing input (implementation vs reference semantics); no-failing-input-found otherwise.",
    }
    for p in props:
        pid = p["id"]
        if pid in CLAIMS:
            text, note, tech = CLAIMS[pid]
            m["checks"].append({"property_id": pid, "quick_cmd": "bin/check quick %s" % pid,
                                "thorough_cmd": "bin/check thorough %s" % pid, "evidence_file": "evidence/%s.json" % pid,
                                "replay_cmd_template": "bin/check quick %s --replay {path}" % pid, "engine": "lean-model",
                                "level_claimed": {"category": "proof", "text": text, "design_ref": "DESIGN.md §5 " + pid},
                                "level_note": note, "technique": tech})
        else:
            m["not_applicable"].append({"property_id": pid, "reason": PENDING})
    json.dump(m, open(os.path.join(VERIF, "MANIFEST.json"), "w"), indent=1)


if __name__ == "__main__":
    main()
