"""Invalid-by-construction derive inputs for C13: each case carries exactly one offence, placed at a
chosen position (first / middle / last field or variant) of a chosen shape, in a chosen spelling."""
import itertools


def item(kind, name, tattrs, variants, generics=""):
    """variants: [(vname, shape, [vattrs], [( [fattrs], fname|None, ty )])]"""
    out = ["#[derive(Educe)]"] + list(tattrs)

    def fields(shape, fs):
        parts = []
        for fattrs, fname, ty in fs:
            a = " ".join(fattrs)
            parts.append(("%s %s: %s" % (a, fname, ty)) if shape == "named" else ("%s %s" % (a, ty)))
        return ", ".join(parts)

    if kind == "struct":
        _, shape, _, fs = variants[0]
        body = {"unit": ";", "tuple": "(%s);" % fields(shape, fs), "named": " { %s }" % fields(shape, fs)}[shape]
        out.append("struct %s%s%s" % (name, generics, body))
    elif kind == "union":
        _, shape, _, fs = variants[0]
        out.append("union %s%s { %s }" % (name, generics, fields("named", fs)))
    else:
        vs = []
        for vname, shape, vattrs, fs in variants:
            a = " ".join(vattrs)
            vs.append({"unit": "%s %s" % (a, vname), "tuple": "%s %s(%s)" % (a, vname, fields(shape, fs)),
                       "named": "%s %s { %s }" % (a, vname, fields(shape, fs))}[shape])
        out.append("enum %s%s { %s }" % (name, generics, ", ".join(vs)))
    return "\n".join(out)


def plain_fields(shape, n, ty="u8"):
    return [([], ("f%d" % i) if shape == "named" else None, ty) for i in range(n)]


def with_attr(fs, idx, attr):
    fs = [(list(a), n, t) for a, n, t in fs]
    fs[idx][0].append(attr)
    return fs


SHAPES = ["tuple", "named"]
CMP_TRAITS = ["PartialEq", "Hash", "PartialOrd", "Ord"]        # field params: ignore, method (+ rank for the orders)
FIELD_TRAITS = ["Debug", "Clone", "PartialEq", "Hash", "PartialOrd", "Ord", "Default"]


def positions(n):
    return sorted({0, n // 2, n - 1})


def struct_and_enum_hosts(trait_attrs, n=3):
    """Hosts for a field-level offence: (kind, builder(fields) -> source) over struct / enum variant, tuple / named."""
    hosts = []
    for shape in SHAPES:
        hosts.append(("struct/" + shape, lambda fs, shape=shape: item("struct", "S", trait_attrs, [("", shape, [], fs)]), shape))
        for vpos in (0, 1):
            def mk(fs, shape=shape, vpos=vpos):
                vs = [("A", "tuple", [], plain_fields("tuple", 1)), ("C", "named", [], plain_fields("named", 1))]
                vs.insert(vpos, ("B", shape, [], fs))
                return item("enum", "E", trait_attrs, vs)
            hosts.append(("enum/%s/variant%d" % (shape, vpos), mk, shape))
    return hosts


def generate():
    """Yields (clause, expected diagnostic classes, source)."""
    # ---- a trait given twice (Into exempt), in one attribute or in two
    for t in ["Debug", "Clone", "PartialEq", "Hash", "Default", "Ord", "Eq", "Copy", "PartialOrd", "Deref"]:
        base = {"Copy": ["Clone"], "Eq": ["PartialEq"], "Ord": [], "Deref": []}.get(t, [])
        for sep in (True, False):
            metas = base + [t, t]
            attrs = ["#[educe(%s)]" % m for m in metas] if sep else ["#[educe(%s)]" % ", ".join(metas)]
            fs = plain_fields("named", 1)
            yield ("trait-twice", {"reuseTrait"}, item("struct", "S", attrs, [("", "named", [], fs)]))
            yield ("trait-twice", {"reuseTrait"}, item("enum", "E", attrs, [("A", "tuple", ["#[educe(Default)]"] if t == "Default" else [], plain_fields("tuple", 1))]))
    # a trait given twice at one field / variant
    for t, p in [("Debug", "ignore"), ("PartialEq", "ignore"), ("Hash", "ignore"), ("Ord", "ignore"), ("Clone", "method(m)"), ("Default", "expression = 1")]:
        for label, mk, shape in struct_and_enum_hosts(["#[educe(%s)]" % t]):
            for pos in positions(3):
                for sep in (True, False):
                    a = "#[educe(%s(%s))] #[educe(%s(%s))]" % (t, p, t, p) if sep else "#[educe(%s(%s), %s(%s))]" % (t, p, t, p)
                    if t == "Default" and label.startswith("enum"):
                        continue
                    yield ("trait-twice-at-field", {"reuseTrait"}, mk(with_attr(plain_fields(shape, 3), pos, a)))
    # Eq(..) next to PartialEq(..) on one field (synonyms), PartialOrd(..) next to Ord(..)
    for a, tattrs in [("#[educe(PartialEq(ignore), Eq(ignore))]", ["#[educe(PartialEq, Eq)]"]),
                      ("#[educe(Ord(ignore))] #[educe(PartialOrd(ignore))]", ["#[educe(PartialOrd, Ord)]"])]:
        for label, mk, shape in struct_and_enum_hosts(tattrs):
            yield ("synonym-twice-at-field", {"reuseTrait"}, mk(with_attr(plain_fields(shape, 2), 1, a)))

    # ---- a parameter given twice (same or alias spelling)
    dup_params = [
        ("Debug", "field", "ignore, ignore = true"), ("Debug", "field", "method(m), method = m"), ("Debug", "fieldnamed", "name = a, rename = b"),
        ("PartialEq", "field", "ignore, ignore(true)"), ("PartialEq", "field", "method(m), method(m)"), ("Hash", "field", "ignore = true, ignore"),
        ("Hash", "field", 'method = "m", method(m)'), ("Ord", "field", "rank = 1, rank = 2"), ("Ord", "field", 'rank(1), rank = "1"'),
        ("PartialOrd", "field", "rank = 1, rank(2)"), ("Ord", "field", "ignore, ignore"), ("Clone", "field", "method(m), method(m)"),
        ("Default", "field", "expression = 1, expr = 2"), ("Default", "field", "expr(1), expr(1)"),
        ("Debug", "type", "name = A, rename = B"), ("Debug", "type", "name(A), name = false"), ("Debug", "type", "named_field = true, named_field(false)"),
        ("Debug", "type", "bound(T: Copy), bound = false"), ("Clone", "type", "bound(T: Copy), bound(*)"), ("PartialEq", "type", 'bound = "T: Copy", bound = false'),
        ("Hash", "type", "bound(*), bound(*)"), ("Ord", "type", "bound = false, bound = false"), ("Default", "type", "new, new = true"),
        ("Default", "type", "expression = S(0, 0, 0), expr = S(0, 0, 0)"), ("Default", "type", "bound(T: Copy), bound(*)"), ("Copy", "type", "bound(*), bound = false"),
        ("Eq", "type", "bound(*), bound = false"), ("Debug", "variant", "name = A, name = B"), ("Debug", "variant", "named_field = true, named_field = true"),
        ("Into", "typeinto", "u8, bound(*), bound = false"), ("Into", "fieldinto", "u8, method(m), method(m)"),
    ]
    for t, where, params in dup_params:
        meta = "%s(%s)" % (t, params)
        if where == "type":
            if t == "Default" and "S(0" in params:
                yield ("parameter-twice", {"parameterReset"}, item("struct", "S", ["#[educe(%s)]" % meta], [("", "tuple", [], plain_fields("tuple", 3))]))
            else:
                yield ("parameter-twice", {"parameterReset"}, item("struct", "S", ["#[educe(%s)]" % meta], [("", "tuple", [], plain_fields("tuple", 2, "T"))], "<T>"))
                yield ("parameter-twice", {"parameterReset"}, item("enum", "E", ["#[educe(%s)]" % meta], [("A", "named", ["#[educe(Default)]"] if t == "Default" else [], plain_fields("named", 1, "T"))], "<T>"))
        elif where == "variant":
            yield ("parameter-twice", {"parameterReset"}, item("enum", "E", ["#[educe(%s)]" % t], [("A", "unit", [], []), ("B", "tuple", ["#[educe(%s)]" % meta], plain_fields("tuple", 1))]))
        elif where == "typeinto":
            yield ("parameter-twice", {"parameterReset"}, item("struct", "S", ["#[educe(%s)]" % meta], [("", "tuple", [], plain_fields("tuple", 1))]))
        elif where == "fieldinto":
            yield ("parameter-twice", {"parameterReset"}, item("struct", "S", ["#[educe(Into(u8))]"], [("", "tuple", [], with_attr(plain_fields("tuple", 2, "u16"), 1, "#[educe(%s)]" % meta))]))
        else:
            tattrs = ["#[educe(%s)]" % t]
            for label, mk, shape in struct_and_enum_hosts(tattrs):
                if where == "fieldnamed" and shape != "named":
                    continue
                if t == "Default" and label.startswith("enum"):
                    continue
                for pos in positions(3):
                    yield ("parameter-twice", {"parameterReset"}, mk(with_attr(plain_fields(shape, 3), pos, "#[educe(%s)]" % meta)))

    # ---- a parameter given twice, systematically: every ordered pair of spellings of every parameter of every trait at
    # the field level and the type level - in particular a first occurrence that spells the value the builder starts from
    # (`ignore = false`, `bound = true`, the default rank), which a repeat check keyed on the stored value cannot see
    BOOL = lambda p: ["%s" % p, "%s = true" % p, "%s(true)" % p, "%s = false" % p, "%s(false)" % p]
    METHOD = ["method(m)", "method = m", 'method = "m"']
    RANK = ["rank = 1", "rank(1)", 'rank = "1"', "rank = -9223372036854775808", "rank(0)", "rank = -9223372036854775807"]
    BOUND = ["bound(*)", "bound = false", 'bound = ""', "bound()", "bound(T: Copy)", "bound = true", 'bound = "T: Copy"']
    field_params = {"Debug": [BOOL("ignore"), METHOD], "PartialEq": [BOOL("ignore"), METHOD], "Hash": [BOOL("ignore"), METHOD],
                    "PartialOrd": [BOOL("ignore"), METHOD, RANK], "Ord": [BOOL("ignore"), METHOD, RANK], "Clone": [METHOD],
                    "Default": [["expression = 1", "expr = 2", "expr(1)", "expression(3)"]]}
    for t, groups in field_params.items():
        type_sets = [[t]] + ([["Ord", "PartialOrd"]] if t in ("Ord", "PartialOrd") else []) + ([["PartialEq", "Eq"]] if t == "PartialEq" else [])
        for spell in groups:
            for a, b in itertools.product(spell, spell):
                for traits in type_sets:
                    meta = "%s(%s, %s)" % (t, a, b)
                    yield ("parameter-twice-pairs/field/" + t, {"parameterReset"},
                           item("struct", "S", ["#[educe(%s)]" % ", ".join(traits)], [("", "tuple", [], with_attr(plain_fields("tuple", 2), 1, "#[educe(%s)]" % meta))]))
                if t != "Default":
                    yield ("parameter-twice-pairs/field/" + t, {"parameterReset"},
                           item("enum", "E", ["#[educe(%s)]" % t], [("A", "unit", [], []), ("B", "named", [], with_attr(plain_fields("named", 2), 0, "#[educe(%s(%s, %s))]" % (t, a, b)))]))
    type_params = {"Debug": [BOUND, BOOL("named_field"), ["name = A", "rename = B", "name(A)", "name = false", 'name = "A"']],
                   "Clone": [BOUND], "Copy": [BOUND], "PartialEq": [BOUND], "Eq": [BOUND], "Hash": [BOUND], "PartialOrd": [BOUND], "Ord": [BOUND],
                   "Default": [BOUND, BOOL("new")]}
    for t, groups in type_params.items():
        for spell in groups:
            for a, b in itertools.product(spell, spell):
                yield ("parameter-twice-pairs/type/" + t, {"parameterReset"},
                       item("struct", "S", ["#[educe(%s(%s, %s))]" % (t, a, b)], [("", "tuple", [], plain_fields("tuple", 2, "T"))], "<T>"))
    for a, b in itertools.product(BOUND, BOUND):
        yield ("parameter-twice-pairs/type/Into", {"parameterReset"}, item("struct", "S", ["#[educe(Into(u8, %s, %s))]" % (a, b)], [("", "tuple", [], plain_fields("tuple", 1))]))
    for a, b in itertools.product(BOOL("named_field") + ["name = A", "name = false"], repeat=2):
        if a.split()[0].split("(")[0] == b.split()[0].split("(")[0]:
            yield ("parameter-twice-pairs/variant/Debug", {"parameterReset"},
                   item("enum", "E", ["#[educe(Debug)]"], [("A", "unit", [], []), ("B", "tuple", ["#[educe(Debug(%s, %s))]" % (a, b)], plain_fields("tuple", 1))]))

    # ---- a rank given twice (explicit/explicit, explicit/default in both orders, different spellings)
    imin = -9223372036854775808
    for t in ["Ord", "PartialOrd"]:
        tattrs = ["#[educe(%s)]" % t]
        for label, mk, shape in struct_and_enum_hosts(tattrs):
            for i, j in [(0, 1), (0, 2), (1, 2)]:
                for ra, rb in [("rank = 5", "rank = 5"), ("rank(5)", 'rank = "5"'), ("rank = -2", 'rank("-2")')]:
                    fs = with_attr(with_attr(plain_fields(shape, 3), i, "#[educe(%s(%s))]" % (t, ra)), j, "#[educe(%s(%s))]" % (t, rb))
                    yield ("rank-twice", {"reuseRank"}, mk(fs))
            # explicit rank equal to another field's default rank isize::MIN + index
            for i, j in [(0, 1), (0, 2), (2, 1), (1, 0), (2, 0)]:
                fs = with_attr(plain_fields(shape, 3), i, "#[educe(%s(rank = %d))]" % (t, imin + j))
                yield ("rank-twice-default", {"reuseRank"}, mk(fs))

    # ---- an Into target given twice
    for a in [["#[educe(Into(u8), Into(u8))]"], ["#[educe(Into(u8))]", "#[educe(Into(u8))]"], ["#[educe(Into(&'static str))]", "#[educe(Into(&'static   str))]"]]:
        ty = "&'static str" if "str" in a[0] else "u8"
        yield ("into-target-twice", {"resetType"}, item("struct", "S", a, [("", "tuple", [], plain_fields("tuple", 1, ty))]))
        yield ("into-target-twice", {"resetType"}, item("enum", "E", a, [("A", "named", [], plain_fields("named", 1, ty))]))
    yield ("into-target-twice-at-field", {"resetType"}, item("struct", "S", ["#[educe(Into(u8))]"], [("", "tuple", [], with_attr(plain_fields("tuple", 2, "u16"), 0, "#[educe(Into(u8), Into(u8))]"))]))

    # ---- designation missing / duplicated
    for n in (2, 3):
        vs_unmarked = [("V%d" % k, "tuple", [], plain_fields("tuple", 1)) for k in range(n)]
        yield ("default-variant-missing", {"noDefaultVariant"}, item("enum", "E", ["#[educe(Default)]"], vs_unmarked))
        for i, j in itertools.combinations(range(n), 2):
            vs = [(nm, sh, (["#[educe(Default)]"] if k in (i, j) else []), fs) for k, (nm, sh, _, fs) in enumerate(vs_unmarked)]
            yield ("default-variant-twice", {"multipleDefaultVariants"}, item("enum", "E", ["#[educe(Default)]"], vs))
        fs = plain_fields("named", n, "u32")
        yield ("default-union-field-missing", {"noDefaultField"}, item("union", "U", ["#[educe(Default)]"], [("", "named", [], fs)]))
        for i, j in itertools.combinations(range(n), 2):
            for ai, aj in [("#[educe(Default)]", "#[educe(Default)]"), ("#[educe(Default = 1)]", "#[educe(Default)]"), ("#[educe(Default(expr = 1))]", "#[educe(Default = 2)]")]:
                yield ("default-union-field-twice", {"multipleDefaultFields"}, item("union", "U", ["#[educe(Default)]"], [("", "named", [], with_attr(with_attr(fs, i, ai), j, aj))]))
    yield ("default-variant-missing", {"noDefaultVariant"}, item("enum", "E", ["#[educe(Default)]"], []))
    for t in ["Deref", "DerefMut"]:
        tattrs = ["#[educe(Deref, DerefMut)]"] if t == "DerefMut" else ["#[educe(Deref)]"]
        for shape in SHAPES:
            for n in (2, 3):
                base = plain_fields(shape, n)
                if t == "DerefMut":
                    base = with_attr(base, 0, "#[educe(Deref)]")
                yield ("deref-field-missing", {"noDerefField"}, item("struct", "S", tattrs, [("", shape, [], base)]))
                yield ("deref-field-missing", {"noDerefField"}, item("enum", "E", tattrs, [("A", shape, [], base)]))
                for i, j in itertools.combinations(range(n), 2):
                    fs = with_attr(with_attr(base, i, "#[educe(%s)]" % t), j, "#[educe(%s)]" % t)
                    yield ("deref-field-twice", {"multipleDerefFields"}, item("struct", "S", tattrs, [("", shape, [], fs)]))
                    vs = [("A", "tuple", [], plain_fields("tuple", 1)), ("B", shape, [], fs)]
                    yield ("deref-field-twice", {"multipleDerefFields"}, item("enum", "E", tattrs, vs))
        yield ("deref-field-missing", {"noDerefField"}, item("struct", "S", tattrs, [("", "unit", [], [])]))
        yield ("deref-field-missing", {"noDerefField"}, item("enum", "E", tattrs, []))
    for shape in SHAPES:
        for n in (2, 3, 4, 5):
            # several fields, none of the target type, no marker
            yield ("into-field-missing", {"noIntoField"}, item("struct", "S", ["#[educe(Into(u8))]"], [("", shape, [], plain_fields(shape, n, "u16"))]))
            yield ("into-field-missing", {"noIntoField"}, item("enum", "E", ["#[educe(Into(u8))]"], [("A", shape, [], plain_fields(shape, n, "u16"))]))
            # several fields of the target type, no marker: ambiguous
            yield ("into-field-ambiguous", {"noIntoField"}, item("struct", "S", ["#[educe(Into(u16))]"], [("", shape, [], plain_fields(shape, n, "u16"))]))
            yield ("into-field-ambiguous", {"noIntoField"}, item("enum", "E", ["#[educe(Into(u16))]"], [("A", "tuple", [], plain_fields("tuple", 1, "u16")), ("B", shape, [], plain_fields(shape, n, "u16"))]))
            for i, j in itertools.combinations(range(n), 2):
                fs = with_attr(with_attr(plain_fields(shape, n, "u16"), i, "#[educe(Into(u8))]"), j, "#[educe(Into(u8))]")
                yield ("into-field-twice", {"multipleIntoFields"}, item("struct", "S", ["#[educe(Into(u8))]"], [("", shape, [], fs)]))
                yield ("into-field-twice", {"multipleIntoFields"}, item("enum", "E", ["#[educe(Into(u8))]"], [("A", shape, [], fs)]))
    yield ("into-marker-for-unrequested-target", {"noIntoImpl"}, item("struct", "S", ["#[educe(Into(u8))]"], [("", "tuple", [], with_attr(plain_fields("tuple", 2, "u16"), 1, "#[educe(Into(u16))]"))]))
    yield ("into-field-missing", {"noIntoField"}, item("enum", "E", ["#[educe(Into(u8))]"], []))

    # ---- attribute for a trait that is not educed / unknown trait / unknown or misplaced parameter
    for t_educed, t_other, p in [("Debug", "Hash", "ignore"), ("PartialEq", "Debug", "ignore"), ("Clone", "PartialEq", "ignore"),
                                 ("Hash", "Ord", "rank = 1"), ("Default", "Clone", "method(m)"), ("Ord", "PartialOrd", "ignore"),
                                 ("PartialEq", "Eq", "ignore"), ("Debug", "Default", "expression = 1"), ("Deref", "DerefMut", None), ("Into(u8)", "Deref", None)]:
        a = "#[educe(%s)]" % (t_other if p is None else "%s(%s)" % (t_other, p))
        for label, mk, shape in struct_and_enum_hosts(["#[educe(%s)]" % t_educed], 1 if t_educed in ("Deref", "Into(u8)") else 3):
            n = 1 if t_educed in ("Deref", "Into(u8)") else 3
            if t_educed in ("Deref", "Into(u8)") and label.startswith("enum"):
                continue
            if t_educed == "Default" and label.startswith("enum"):
                continue
            for pos in positions(n):
                yield ("trait-not-educed-at-field", {"traitNotUsed"}, mk(with_attr(plain_fields(shape, n), pos, a)))
        if t_educed not in ("Deref", "Into(u8)", "Default"):
            yield ("trait-not-educed-at-variant", {"traitNotUsed"}, item("enum", "E", ["#[educe(%s)]" % t_educed], [("A", "tuple", [], plain_fields("tuple", 1)), ("B", "tuple", [a], plain_fields("tuple", 1))]))
    for unknown in ["Foo", "debug", "PartialEQ", "Display", "a::Debug"]:
        yield ("unknown-trait", {"unsupportedTrait"}, item("struct", "S", ["#[educe(%s)]" % unknown], [("", "tuple", [], plain_fields("tuple", 1))]))
        yield ("unknown-trait", {"unsupportedTrait"}, item("struct", "S", ["#[educe(Debug, %s)]" % unknown], [("", "tuple", [], plain_fields("tuple", 1))]))
        for label, mk, shape in struct_and_enum_hosts(["#[educe(Debug)]"]):
            for pos in positions(3):
                yield ("unknown-trait-at-field", {"unsupportedTrait"}, mk(with_attr(plain_fields(shape, 3), pos, "#[educe(%s)]" % unknown)))
        yield ("unknown-trait-at-variant", {"unsupportedTrait"}, item("enum", "E", ["#[educe(Debug)]"], [("A", "unit", ["#[educe(%s)]" % unknown], []), ("B", "unit", [], [])]))
    misplaced = [
        # (educed trait metas, position, attribute)   — all are "parameter not accepted here / unknown parameter / wrong form"
        ("Debug", "field", "Debug(zzz = 1)"), ("Debug", "field", "Debug(bound = false)"), ("Debug", "field", "Debug(named_field = true)"), ("Debug", "field", "Debug"),
        ("Debug", "tuplefield", "Debug(name = x)"), ("Debug", "tuplefield", "Debug = x"),
        ("PartialEq", "field", "PartialEq(rank = 1)"), ("PartialEq", "field", "PartialEq(bound = false)"), ("PartialEq", "field", "PartialEq"), ("Hash", "field", "Hash(name = x)"), ("Hash", "field", "Hash"),
        ("Ord", "field", "Ord(bound(*))"), ("Ord", "field", "Ord"), ("PartialOrd", "field", "PartialOrd(name = x)"), ("Clone", "field", "Clone(ignore)"), ("Clone", "field", "Clone"), ("Clone", "field", "Clone = false"),
        ("Clone, Copy", "structfield", "Clone(method(m))"), ("Copy", "field", "Copy"), ("Copy", "field", "Copy(bound(*))"), ("PartialEq, Eq", "nothing", ""), ("Eq", "field", "Eq(ignore)"), ("Eq", "field", "Eq"),
        ("Default", "structfield", "Default"), ("Default", "structfield", "Default(new)"), ("Default", "structfield", "Default(bound(*))"), ("Deref", "field1", "Deref(x)"), ("Deref", "field1", "Deref = true"),
        ("Debug", "variant", "Debug"), ("Debug", "variant", "Debug(bound = false)"), ("Debug", "variant", "Debug(ignore)"), ("PartialEq", "variant", "PartialEq"), ("PartialEq", "variant", "PartialEq(bound = false)"),
        ("Hash", "variant", "Hash(bound(*))"), ("Ord", "variant", "Ord"), ("Ord", "variant", "Ord(rank = 1)"), ("Clone", "variant", "Clone"), ("Clone", "variant", "Clone(bound(*))"), ("Copy", "variant", "Copy"),
        ("Eq", "variant", "Eq"), ("Deref", "variant1", "Deref"), ("Into(u8)", "variant1", "Into(u8)"), ("Default", "variant", "Default(new)"), ("Default", "variant", "Default(expression = 1)"), ("Default", "variant", "Default(bound(*))"),
        ("Debug(zzz)", "type", ""), ("Debug(ignore)", "type", ""), ("Debug(method(m))", "type", ""), ("PartialEq(ignore)", "type", ""), ("PartialEq = false", "type", ""), ("Hash(method(m))", "type", ""),
        ("Ord(rank = 1)", "type", ""), ("Clone(method(m))", "type", ""), ("Clone = 1", "type", ""), ("Default = 1", "type", ""), ("Default(zzz)", "type", ""), ("Deref(x)", "type1", ""), ("Into", "type1", ""), ("Into = u8", "type1", ""),
        ("Debug(unsafe)", "type", ""), ("PartialEq(unsafe)", "type", ""), ("Hash(unsafe)", "type", ""),
    ]
    for educed, where, a in misplaced:
        tattrs = ["#[educe(%s)]" % educed]
        if where == "nothing":
            continue
        if where in ("type", "type1"):
            n = 1 if where == "type1" else 2
            yield ("misplaced-parameter", {"incorrectFormat", "badValue"}, item("struct", "S", tattrs, [("", "tuple", [], plain_fields("tuple", n))]))
            yield ("misplaced-parameter", {"incorrectFormat", "badValue"}, item("enum", "E", tattrs, [("A", "named", [], plain_fields("named", n))]))
            continue
        fa = "#[educe(%s)]" % a
        if where in ("variant", "variant1"):
            n = 1
            vs = [("A", "tuple", [], plain_fields("tuple", n)), ("B", "named", [fa], plain_fields("named", n))]
            if educed == "Default":
                vs[0] = ("A", "tuple", ["#[educe(Default)]"], plain_fields("tuple", n))
            yield ("misplaced-parameter", {"incorrectFormat", "badValue"}, item("enum", "E", tattrs, vs))
            vs = [("B", "tuple", [fa], plain_fields("tuple", n))] + vs[:1]
            if not (educed == "Default"):
                yield ("misplaced-parameter", {"incorrectFormat", "badValue"}, item("enum", "E", tattrs, vs))
            continue
        if where == "tuplefield":
            for pos in positions(3):
                yield ("misplaced-parameter", {"incorrectFormat", "badValue"}, item("struct", "S", tattrs, [("", "tuple", [], with_attr(plain_fields("tuple", 3), pos, fa))]))
                yield ("misplaced-parameter", {"incorrectFormat", "badValue"}, item("enum", "E", tattrs, [("A", "tuple", [], with_attr(plain_fields("tuple", 3), pos, fa))]))
            continue
        if where == "structfield":
            for shape in SHAPES:
                for pos in positions(3):
                    yield ("misplaced-parameter", {"incorrectFormat", "badValue"}, item("struct", "S", tattrs, [("", shape, [], with_attr(plain_fields(shape, 3), pos, fa))]))
            continue
        n = 1 if where == "field1" else 3
        for label, mk, shape in struct_and_enum_hosts(tattrs, n):
            if where == "field1" and label.startswith("enum"):
                continue
            for pos in positions(n):
                yield ("misplaced-parameter", {"incorrectFormat", "badValue"}, mk(with_attr(plain_fields(shape, n), pos, fa)))
    # a type-level default expression: no Default attribute may appear on a variant or field
    for fa in ["#[educe(Default)]", "#[educe(Default = 7)]", "#[educe(Default(expression = 7))]"]:
        for pos in (0, 1):
            yield ("default-attribute-under-type-expression", {"incorrectPlace", "incorrectFormat", "badValue"},
                   item("struct", "S", ["#[educe(Default(expression = S { f0: 1, f1: 2 }))]"], [("", "named", [], with_attr(plain_fields("named", 2), pos, fa))]))
            yield ("default-attribute-under-type-expression", {"incorrectPlace", "incorrectFormat", "badValue"},
                   item("union", "U", ["#[educe(Default(expression = U { f0: 1 }))]"], [("", "named", [], with_attr(plain_fields("named", 2, "u32"), pos, fa))]))
            yield ("default-attribute-under-type-expression", {"incorrectPlace", "incorrectFormat", "badValue"},
                   item("enum", "E", ["#[educe(Default(expression = E::A(1, 2)))]"], [("A", "tuple", [], with_attr(plain_fields("tuple", 2), pos, fa)), ("B", "unit", [], [])]))
    yield ("default-attribute-under-type-expression", {"incorrectPlace", "incorrectFormat", "badValue"},
           item("enum", "E", ["#[educe(Default(expression = E::B))]"], [("A", "tuple", ["#[educe(Default)]"], plain_fields("tuple", 1)), ("B", "unit", [], [])]))
    # the sole field of a variant / struct is designated without a marker, but its attributes are still validated
    for tattrs, a, classes in [(["#[educe(Deref)]"], "Deref(x)", {"incorrectFormat", "badValue"}), (["#[educe(Deref)]"], "Deref = true", {"incorrectFormat", "badValue"}),
                               (["#[educe(Deref)]"], "Deref, Deref", {"reuseTrait"}),
                               (["#[educe(Deref, DerefMut)]"], "DerefMut(x)", {"incorrectFormat", "badValue"}), (["#[educe(Deref, DerefMut)]"], "DerefMut = true", {"incorrectFormat", "badValue"}),
                               (["#[educe(Deref, DerefMut)]"], "DerefMut, DerefMut", {"reuseTrait"}), (["#[educe(Deref, DerefMut)]"], "Deref, DerefMut(x)", {"incorrectFormat", "badValue"}),
                               (["#[educe(Into(u8))]"], "Into(u8, zzz)", {"incorrectFormat", "badValue"}), (["#[educe(Into(u8))]"], "Into", {"incorrectFormat", "badValue"})]:
        fa = "#[educe(%s)]" % a
        for shape in SHAPES:
            yield ("sole-field-attribute-malformed", classes, item("struct", "S", tattrs, [("", shape, [], with_attr(plain_fields(shape, 1), 0, fa))]))
            for vpos in (0, 1):
                vs = [("A", "tuple", [], plain_fields("tuple", 1))]
                vs.insert(vpos, ("B", shape, [], with_attr(plain_fields(shape, 1), 0, fa)))
                yield ("sole-field-attribute-malformed", classes, item("enum", "E", tattrs, vs))
    # ---- error paths reached by no other clause (found with bin/coverage): per trait, at type level and at variant level
    ANY = {"incorrectFormat", "badValue", "parameterReset", "reuseTrait", "traitNotUsed", "unsupportedTrait", "incorrectPlace"}
    for t in ["Debug", "Clone", "Copy", "PartialEq", "Eq", "PartialOrd", "Ord", "Hash", "Default", "Deref", "DerefMut", "Into"]:
        educed = {"Copy": "Clone, Copy", "Eq": "PartialEq, Eq", "DerefMut": "Deref, DerefMut", "Into": "Into(u8)"}.get(t, t)
        one = t in ("Deref", "DerefMut", "Into")
        def host(meta, kind="struct"):
            metas = [m.strip() for m in educed.split(",")]
            metas = [meta if m.split("(")[0] == t else m for m in metas]
            tattrs = ["#[educe(%s)]" % ", ".join(metas)]
            if kind == "struct":
                return item("struct", "S", tattrs, [("", "tuple", [], plain_fields("tuple", 1 if one else 2))])
            return item("enum", "E", tattrs, [("A", "named", ["#[educe(Default)]"] if t == "Default" else [], plain_fields("named", 1 if one else 2))])
        for meta in ["%s = 1" % t, "%s(zzz)" % t, "%s(zzz = 1)" % t, "%s(zzz(1))" % t, "%s = \"x\"" % t, "%s(1)" % t]:
            if (t == "Into" and meta in ("Into(zzz)", "Into(1)")) or (t == "Debug" and meta == 'Debug = "x"'):
                continue          # a target type called zzz / a type-level name: valid requests
            for kind in ("struct", "enum"):
                yield ("type-level-form", ANY, host(meta, kind))
        if t not in ("Deref", "DerefMut", "Into"):
            for b in ["bound(T: Copy), bound(T: Copy)", "bound = false, bound(*)", 'bound = "T: Copy", bound = true']:
                yield ("parameter-twice", {"parameterReset"}, item("struct", "S", ["#[educe(%s)]" % educed.replace(t, "%s(%s)" % (t, b), 1) if t not in ("Copy", "Eq") else "#[educe(%s(%s))]" % (t, b)],
                                                                   [("", "tuple", [], plain_fields("tuple", 2, "T"))], "<T>"))
        # at a variant: unknown trait, a trait that is not educed, the trait twice
        for va in ["#[educe(Zzz)]", "#[educe(%s)]" % ("Hash" if t != "Hash" else "Debug"), "#[educe(a::b)]"]:
            vs = [("A", "tuple", ["#[educe(Default)]"] if t == "Default" else [], plain_fields("tuple", 1)), ("B", "named", [va], plain_fields("named", 1))]
            yield ("variant-attribute-of-other-trait", {"unsupportedTrait", "traitNotUsed"}, item("enum", "E", ["#[educe(%s)]" % educed], vs))
        if t in ("Debug", "Default"):
            for va in ["#[educe(%s, %s)]" % (t, t), "#[educe(%s)] #[educe(%s)]" % (t, t)]:
                vs = [("A", "tuple", [], plain_fields("tuple", 1)), ("B", "named", [va], plain_fields("named", 1))]
                yield ("trait-twice-at-variant", {"reuseTrait", "multipleDefaultVariants"}, item("enum", "E", ["#[educe(%s)]" % educed], vs))
    # an attribute of an educed trait at a variant, where only Debug and Default take one - also through the partner that
    # reads it on the trait's behalf (Ord reads `PartialOrd`, PartialEq reads `Eq`, Clone reads `Copy`)
    for educed, ts in [("PartialOrd, Ord", ["PartialOrd", "Ord"]), ("PartialEq, Eq", ["PartialEq", "Eq"]), ("Clone, Copy", ["Clone", "Copy"]),
                       ("PartialOrd", ["PartialOrd"]), ("Ord", ["Ord"]), ("PartialEq", ["PartialEq"]), ("Hash", ["Hash"]), ("Clone", ["Clone"]),
                       ("Hash, PartialOrd, Ord", ["PartialOrd", "Hash"])]:
        for t in ts:
            for va in ["#[educe(%s)]" % t, "#[educe(%s(ignore))]" % t, "#[educe(%s = false)]" % t]:
                for vpos in (0, 1):
                    vs = [("A", "tuple", [], plain_fields("tuple", 1))]
                    vs.insert(vpos, ("B", "named", [va], plain_fields("named", 2)))
                    yield ("variant-attribute-of-educed-trait", ANY, item("enum", "E", ["#[educe(%s)]" % educed], vs))
    # field-level value forms of the ordering parameters
    for t in ["Ord", "PartialOrd"]:
        for a in ["rank = x", "rank(x)", "rank = 1.5", "rank", "rank()", "method", "method = 1", "method()", "zzz", "zzz = 1", "ignore = 3", "ignore(x)", "rank = \"x\"", "rank(1, 2)"]:
            for label, mk, shape in struct_and_enum_hosts(["#[educe(%s)]" % t]):
                yield ("field-parameter-form", ANY, mk(with_attr(plain_fields(shape, 2), 1, "#[educe(%s(%s))]" % (t, a))))
    for t, a in [("PartialEq", "method"), ("PartialEq", "method = 1"), ("Hash", "method()"), ("Hash", "zzz"), ("Debug", "name = 1"), ("Debug", "name()"), ("Clone", "method"), ("Default", "expression"),
                 ("PartialEq", "bound = 3"), ("Debug", "bound = 3"), ("Clone", "bound(T)")]:
        if "bound" in a:
            yield ("field-parameter-form", ANY, item("struct", "S", ["#[educe(%s(%s))]" % (t, a)], [("", "tuple", [], plain_fields("tuple", 2, "T"))], "<T>"))
        else:
            for label, mk, shape in struct_and_enum_hosts(["#[educe(%s)]" % t]):
                if t == "Default" and label.startswith("enum"):
                    continue
                if t == "Debug" and shape != "named":
                    continue
                yield ("field-parameter-form", ANY, mk(with_attr(plain_fields(shape, 2), 1, "#[educe(%s(%s))]" % (t, a))))
    # DerefMut's own checks (Deref is satisfied)
    yield ("deref-field-missing", {"noDerefField"}, item("enum", "E", ["#[educe(Deref, DerefMut)]"], [("A", "tuple", [], with_attr(plain_fields("tuple", 2), 0, "#[educe(Deref)]"))]))
    yield ("deref-field-missing", {"noDerefField"}, item("struct", "S", ["#[educe(Deref, DerefMut)]"], [("", "named", [], with_attr(plain_fields("named", 3), 1, "#[educe(Deref)]"))]))
    # ---- the same forms at a field, for every trait (one attribute, and the trait twice)
    for t in ["Debug", "Clone", "Copy", "PartialEq", "Eq", "PartialOrd", "Ord", "Hash", "Default", "Deref", "DerefMut", "Into"]:
        educed = {"Copy": "Clone, Copy", "Eq": "PartialEq, Eq", "DerefMut": "Deref, DerefMut", "Into": "Into(u8)"}.get(t, t)
        forms = ["%s = 1" % t, "%s(zzz)" % t, "%s(zzz = 1)" % t, "%s(1)" % t, "%s()" % t, "%s, %s" % (t, t), "%s(ignore = 3)" % t, "%s(method = 1)" % t]
        if t in ("Clone", "Copy", "Eq", "Deref", "DerefMut", "Into", "PartialOrd", "Ord", "Hash", "PartialEq"):
            forms.append('%s = "x"' % t)
        if t not in ("Deref", "DerefMut", "Default", "Into"):
            forms.append(t)                       # the bare trait at a field means nothing (Deref/Default/Into: a marker)
        for fm in forms:
            if t == "Default" and fm == "Default = 1":
                continue                          # the default expression `1`: valid
            if fm == "%s()" % t and t not in ("Copy", "Deref", "DerefMut", "Into"):
                continue                          # an empty parameter list sets nothing: valid where the trait takes parameters
            if t == "Into" and fm in ("Into(zzz)", "Into(1)"):
                continue
            one = t in ("Deref", "DerefMut", "Into")
            for shape in ("tuple", "named"):
                fs = plain_fields(shape, 1 if one else 2)
                fs = with_attr(fs, 0, "#[educe(%s)]" % fm)
                if t == "DerefMut":
                    fs = with_attr(fs, 0, "#[educe(Deref)]")
                yield ("field-level-form", ANY, item("struct", "S", ["#[educe(%s)]" % educed], [("", shape, [], fs)]))
                yield ("field-level-form", ANY, item("enum", "E", ["#[educe(%s)]" % educed], [("A", shape, ["#[educe(Default)]"] if t == "Default" else [], fs)]))
    # ---- DerefMut educed alone (Deref written by hand): its own refusals are not shadowed by Deref's
    for tattr in ["#[educe(DerefMut)]"]:
        yield ("deref-unit-variant", {"unitVariant"}, item("enum", "E", [tattr], [("A", "tuple", [], plain_fields("tuple", 1)), ("B", "unit", [], [])]))
        yield ("deref-field-missing", {"noDerefField"}, item("enum", "E", [tattr], [("A", "tuple", [], plain_fields("tuple", 2))]))
        yield ("deref-field-missing", {"noDerefField"}, item("enum", "E", [tattr], [("A", "named", [], plain_fields("named", 1)), ("B", "named", [], plain_fields("named", 3))]))
        yield ("deref-field-missing", {"noDerefField"}, item("struct", "S", [tattr], [("", "named", [], plain_fields("named", 2))]))
        yield ("deref-field-missing", {"noDerefField"}, item("struct", "S", [tattr], [("", "unit", [], [])]))
        for shape in ("tuple", "named"):
            two = with_attr(with_attr(plain_fields(shape, 3), 0, "#[educe(DerefMut)]"), 2, "#[educe(DerefMut)]")
            yield ("deref-field-twice", {"multipleDerefFields"}, item("struct", "S", [tattr], [("", shape, [], two)]))
            yield ("deref-field-twice", {"multipleDerefFields"}, item("enum", "E", [tattr], [("A", "tuple", [], plain_fields("tuple", 1)), ("B", shape, [], two)]))
        for fm in ["DerefMut = 1", "DerefMut(x)", "DerefMut()", "Zzz", "Deref", "DerefMut, DerefMut"]:
            fs = with_attr(plain_fields("tuple", 1), 0, "#[educe(%s)]" % fm)
            yield ("field-level-form", ANY, item("struct", "S", [tattr], [("", "tuple", [], fs)]))
            yield ("field-level-form", ANY, item("enum", "E", [tattr], [("A", "tuple", [], fs)]))
        for va in ["#[educe(DerefMut)]", "#[educe(Zzz)]", "#[educe(Deref)]"]:
            yield ("variant-attribute-of-other-trait", ANY, item("enum", "E", [tattr], [("A", "tuple", [va], plain_fields("tuple", 1))]))
        for meta in ["DerefMut = 1", "DerefMut(x)", "DerefMut()"]:
            yield ("type-level-form", ANY, item("struct", "S", ["#[educe(%s)]" % meta], [("", "tuple", [], plain_fields("tuple", 1))]))
        yield ("union-not-supported", {"notSupportUnion"}, item("union", "U", [tattr], [("", "named", [], plain_fields("named", 2))]))
    # ---- companion traits (Eq/PartialEq, Ord/PartialOrd, Copy/Clone, DerefMut/Deref): educed together or alone, an attribute of
    # either at a field / variant in every form; the valid combinations are listed and skipped
    for first, second in [("PartialEq", "Eq"), ("PartialOrd", "Ord"), ("Clone", "Copy"), ("Deref", "DerefMut")]:
        for educed in ["%s, %s" % (first, second), second, first]:
            one = first == "Deref"
            for t in (first, second):
                for fm in [t, "%s(bound(*))" % t, "%s = 1" % t, "%s(ignore)" % t, "%s, %s" % (t, t), "%s(zzz)" % t, "Zzz", "Hash"]:
                    on = [x.strip() for x in educed.split(",")]
                    valid_at_field = (fm == "%s(ignore)" % t and t in on and t in ("PartialEq", "PartialOrd", "Ord")) \
                        or (fm == "Eq(ignore)" and on == ["PartialEq", "Eq"]) \
                        or (fm == t and t in on and t in ("Deref", "DerefMut"))
                    fs = with_attr(plain_fields("tuple", 1 if one else 2), 0, "#[educe(%s)]" % fm)
                    if not valid_at_field:
                        yield ("companion-trait-attribute", ANY, item("enum", "E", ["#[educe(%s)]" % educed], [("A", "tuple", [], fs)]))
                        yield ("companion-trait-attribute", ANY, item("struct", "S", ["#[educe(%s)]" % educed], [("", "tuple", [], fs)]))
                    yield ("companion-trait-attribute", ANY, item("enum", "E", ["#[educe(%s)]" % educed], [("A", "tuple", ["#[educe(%s)]" % fm], plain_fields("tuple", 1))]))
    # ---- bound values that are neither predicates, a boolean nor `*`
    for t in ["Debug", "Clone", "PartialEq", "PartialOrd", "Ord", "Hash", "Default", "Eq", "Copy"]:
        for b in ["bound = x", 'bound = "T: !!"', "bound = 3", "bound(3)", "bound(T Copy)", "bound = 'a'", "bound(**)", 'bound = "*"', "bound"]:
            yield ("bound-value-malformed", ANY, item("struct", "S", ["#[educe(%s(%s))]" % (t, b)], [("", "tuple", [], plain_fields("tuple", 2, "T"))], "<T>"))
            yield ("bound-value-malformed", ANY, item("enum", "E", ["#[educe(%s(%s))]" % (t, b)],
                                                      [("A", "named", ["#[educe(Default)]"] if t == "Default" else [], plain_fields("named", 1, "T"))], "<T>"))
    # ---- further placements found with bin/coverage
    for form in ["Debug(name = false)", 'Debug(name = "")']:
        for nf in ("", ", named_field = true", ", named_field = false"):
            for n in (0, 1, 2):
                fs = plain_fields("tuple", n)
                for k in range(n):
                    fs = with_attr(fs, k, "#[educe(Debug(ignore))]")
                for upos in (0, 1):
                    vs = [("A", "named", [], plain_fields("named", 1))]
                    vs.insert(upos, ("T", "tuple", ["#[educe(%s)]" % (form[:-1] + nf + ")")], fs))
                    yield ("debug-nameless-unit", {"unitStructNeedName"}, item("enum", "E", ["#[educe(Debug)]"], vs))
    for va in ["#[educe(Debug(name = X), Debug(name = Y))]", "#[educe(Debug = X)] #[educe(Debug = Y)]", "#[educe(Debug(named_field = true))] #[educe(Debug(name = Y))]"]:
        yield ("trait-twice-at-variant", {"reuseTrait"}, item("enum", "E", ["#[educe(Debug)]"], [("A", "tuple", [], plain_fields("tuple", 1)), ("B", "named", [va], plain_fields("named", 1))]))
    for va in ["#[educe(Default, Default)]", "#[educe(Default)] #[educe(Default)]"]:
        yield ("trait-twice-at-variant", {"reuseTrait"}, item("enum", "E", ["#[educe(Default)]"], [("A", "tuple", [va], plain_fields("tuple", 1)), ("B", "unit", [], [])]))
    for t in ["PartialOrd", "Ord", "PartialEq", "Hash"]:
        twice = ["ignore, ignore", "ignore = true, ignore(false)", "method = a, method(b)", "method(a), method(a)"]
        if t in ("PartialOrd", "Ord"):
            twice += ["rank = 1, rank = 2", "rank(1), rank = 1", "rank = 1, ignore, rank = 1"]
        for a in twice:
            for label, mk, shape in struct_and_enum_hosts(["#[educe(%s)]" % t]):
                yield ("parameter-twice", {"parameterReset"}, mk(with_attr(plain_fields(shape, 2), 1, "#[educe(%s(%s))]" % (t, a))))
        for label, mk, shape in struct_and_enum_hosts(["#[educe(%s)]" % t]):
            yield ("trait-twice-at-field", {"reuseTrait"}, mk(with_attr(plain_fields(shape, 2), 0, "#[educe(%s(ignore), %s(ignore))]" % (t, t))))
            yield ("trait-twice-at-field", {"reuseTrait"}, mk(with_attr(plain_fields(shape, 2), 1, "#[educe(%s(ignore))] #[educe(%s(method = m))]" % (t, t))))
    for tattr in ["#[educe(DerefMut)]", "#[educe(Deref)]", "#[educe(Deref, DerefMut)]"]:
        yield ("deref-field-missing", {"noDerefField"}, item("enum", "E", [tattr], []))
    yield ("into-field-missing", {"noIntoField", "noIntoImpl"}, item("enum", "E", ["#[educe(Into(u8))]"], []))
    # ---- offences at a variant, for every trait x variant shape (unit too) x first / last variant
    for t in ["Debug", "Clone", "Copy", "PartialEq", "Eq", "PartialOrd", "Ord", "Hash", "Default", "Deref", "DerefMut", "Into"]:
        educed = {"Copy": "Clone, Copy", "Eq": "PartialEq, Eq", "DerefMut": "Deref, DerefMut", "Into": "Into(u8)"}.get(t, t)
        one = t in ("Deref", "DerefMut", "Into")
        other = "Hash" if t != "Hash" else "Debug"
        for shape in ("unit", "tuple", "named"):
            if one and shape == "unit":
                continue
            for vpos in (0, 2):
                for va in ["Zzz", other, "a::b", "%s(zzz)" % t, "%s(bound(*))" % t, "%s(zzz = 1)" % t, "%s, %s" % (other, t), "%s, Zzz" % t]:
                    if t == "Into" and va.startswith("Into("):
                        continue
                    vs = [("A", "tuple", ["#[educe(Default)]"] if t == "Default" else [], plain_fields("tuple", 1)), ("C", "named", [], plain_fields("named", 1))]
                    vs.insert(vpos, ("B", shape, ["#[educe(%s)]" % va], plain_fields(shape, 1 if shape != "unit" else 0)))
                    yield ("offence-at-variant", ANY, item("enum", "E", ["#[educe(%s)]" % educed], vs))
    # ---- the same at the only variant of a single-variant enum (several handlers take a path of their own there)
    for t in ["Debug", "Clone", "Copy", "PartialEq", "Eq", "PartialOrd", "Ord", "Hash", "Default", "Deref", "DerefMut", "Into"]:
        educed = {"Copy": "Clone, Copy", "Eq": "PartialEq, Eq", "DerefMut": "Deref, DerefMut", "Into": "Into(u8)"}.get(t, t)
        one = t in ("Deref", "DerefMut", "Into")
        other = "Hash" if t != "Hash" else "Debug"
        for shape in ("unit", "tuple", "named"):
            if one and shape == "unit":
                continue
            forms = ["Zzz", other, "%s(zzz)" % t, "%s(bound(*))" % t, "%s(bound = false)" % t, "%s(zzz = 1)" % t, "%s, %s" % (t, t)]
            if t == "Default":
                forms += ["Default(new)", "Default(expression = E::B)", "Default(expr = 1)", "Default = 1", "Default(new, bound(*))"]
            if t not in ("Default",):
                forms += ["%s" % t.split("(")[0]]          # the bare trait at a variant (only Default accepts a marker there)
            for va in forms:
                if t == "Into" and va.startswith("Into"):
                    continue
                if t == "Debug" and va in ("Debug",):
                    continue
                vs = [("B", shape, ["#[educe(%s)]" % va], plain_fields(shape, 1 if shape != "unit" else 0))]
                yield ("offence-at-sole-variant", ANY, item("enum", "E", ["#[educe(%s)]" % educed], vs))
    # ---- offences at a union field, for every trait a union supports
    for educed in ["Debug(unsafe)", "PartialEq(unsafe)", "Hash(unsafe)", "Clone", "Clone, Copy", "Copy", "PartialEq(unsafe), Eq", "Eq", "Default"]:
        names = [x.strip().split("(")[0] for x in educed.split(",")]
        other = "Hash" if "Hash" not in names else "Debug"
        for n in (2, 3):
            for pos in (0, n - 1):
                for fa in ["Zzz", other, "a::b"] + ["%s(zzz)" % names[-1], "%s = 1" % names[-1], "%s, %s" % (names[-1], names[-1])]:
                    if names[-1] == "Default" and fa == "Default = 1":
                        continue
                    fs = with_attr(plain_fields("named", n, "u32"), pos, "#[educe(%s)]" % fa)
                    if names[-1] == "Default" and not fa.startswith("Default,"):
                        fs = with_attr(fs, 1 if pos == 0 else 0, "#[educe(Default)]")
                    yield ("offence-at-union-field", ANY, item("union", "U", ["#[educe(%s)]" % educed], [("", "named", [], fs)]))
    # union fields accept nothing for Debug / PartialEq / Hash / Clone
    for t, a in [("Debug(unsafe)", "Debug(ignore)"), ("Debug(unsafe)", "Debug(method(m))"), ("Debug(unsafe)", "Debug = x"), ("PartialEq(unsafe)", "PartialEq(ignore)"),
                 ("PartialEq(unsafe)", "PartialEq(method(m))"), ("Hash(unsafe)", "Hash(method(m))"), ("Hash(unsafe)", "Hash = false"), ("Clone", "Clone(method(m))"),
                 ("Debug(unsafe, named_field = true)", None), ("Debug(unsafe, bound(*))", None), ("PartialEq(unsafe, bound(*))", None), ("Hash(unsafe, bound = false)", None)]:
        for n in (1, 3):
            for pos in positions(n):
                fs = plain_fields("named", n, "u32")
                if a:
                    fs = with_attr(fs, pos, "#[educe(%s)]" % a)
                yield ("misplaced-parameter-union", {"incorrectFormat", "badValue"}, item("union", "U", ["#[educe(%s)]" % t], [("", "named", [], fs)]))

    # ---- unions: `unsafe` omitted, or a trait unions do not support
    for t in ["Debug", "PartialEq", "Hash"]:
        for form in [t, "%s()" % t, "%s(name = X)" % t if t == "Debug" else t, "%s[]" % t, "%s{}" % t]:
            yield ("union-without-unsafe", {"unionWithoutUnsafe"}, item("union", "U", ["#[educe(%s)]" % form], [("", "named", [], plain_fields("named", 2, "u32"))]))
    yield ("union-unsafe-not-first", {"badValue", "incorrectFormat", "unionWithoutUnsafe"}, item("union", "U", ["#[educe(Debug(name = X, unsafe))]"], [("", "named", [], plain_fields("named", 1, "u32"))]))
    for t in ["PartialOrd", "Ord", "Deref", "Deref, DerefMut", "Into(u32)"]:
        yield ("union-unsupported-trait", {"notSupportUnion"}, item("union", "U", ["#[educe(%s)]" % t], [("", "named", [], plain_fields("named", 1, "u32"))]))

    # ---- unit variants under Deref / DerefMut / Into
    for t in ["Deref", "Deref, DerefMut", "Into(u8)"]:
        for upos in (0, 1, 2):
            vs = [("A", "tuple", [], plain_fields("tuple", 1)), ("B", "named", [], plain_fields("named", 1))]
            vs.insert(upos, ("U", "unit", [], []))
            yield ("unit-variant", {"unitVariant"}, item("enum", "E", ["#[educe(%s)]" % t], vs))

    # ---- Debug with nothing to print and no name
    for form in ["Debug(name = false)", "Debug(name(false))", 'Debug(name = "")']:
        yield ("debug-nameless-unit", {"unitStructNeedName"}, item("struct", "S", ["#[educe(%s)]" % form], [("", "unit", [], [])]))
        yield ("debug-nameless-unit", {"unitStructNeedName"}, item("struct", "S", ["#[educe(%s)]" % form], [("", "tuple", [], with_attr(plain_fields("tuple", 1), 0, "#[educe(Debug(ignore))]"))]))
        yield ("debug-nameless-unit", {"unitStructNeedName"}, item("struct", "S", ["#[educe(%s)]" % form], [("", "named", [], [])]))
        for upos in (0, 1):
            vs = [("A", "tuple", [], plain_fields("tuple", 1))]
            vs.insert(upos, ("U", "unit", ["#[educe(%s)]" % form], []))
            yield ("debug-nameless-unit", {"unitVariantNeedName"}, item("enum", "E", ["#[educe(Debug)]"], vs))
            vs = [("A", "tuple", [], plain_fields("tuple", 1))]
            vs.insert(upos, ("B", "named", ["#[educe(%s)]" % form], with_attr(plain_fields("named", 1), 0, "#[educe(Debug = false)]")))
            yield ("debug-nameless-unit", {"unitStructNeedName"}, item("enum", "E", ["#[educe(Debug)]"], vs))
    yield ("debug-nameless-unit", {"unitEnumNeedName"}, item("enum", "E", ["#[educe(Debug)]"], []))
    yield ("debug-nameless-unit", {"unitEnumNeedName"}, item("enum", "E", ["#[educe(Debug(name = false))]"], []))
