"""In-process correspondences (B2 headers, B3 relational, B4 outcome) between the real
`derive_input_handler` (hooked rlib, `vtool expand`) and the Lean attribute-layer model (`expand`)."""
import json, os, random, re, subprocess
from . import common, gen

ALL_TRAITS = ["Debug", "Clone", "Copy", "PartialEq", "Eq", "PartialOrd", "Ord", "Hash", "Default", "Deref", "DerefMut", "Into"]

# message prefix -> diagnostic class of the model (Attr.Diag); anything else is `badValue`
MESSAGE_CLASSES = [
    (r"^unsupported trait `", "unsupportedTrait"),
    (r"^the trait `[^`]*` is used repeatedly", "reuseTrait"),
    (r"^you are using an incorrect format of the `educe` attribute", "educeFormat"),
    (r"^you are using an incorrect format of the `", "incorrectFormat"),
    (r"^the `[^`]*` attribute cannot be placed here", "incorrectFormat"),
    (r"^you are trying to reset the `", "parameterReset"),
    (r"^the trait `[^`]*` is not used", "traitNotUsed"),
    (r"^the trait `[^`]*` does not support to a union", "notSupportUnion"),
    (r"^the trait `[^`]*` cannot be implemented for an enum which has unit variants", "unitVariant"),
    (r"^the rank `", "reuseRank"),
    (r"^a unit struct needs to have a name", "unitStructNeedName"),
    (r"^a unit variant which", "unitVariantNeedName"),
    (r"^a unit enum needs to have a name", "unitEnumNeedName"),
    (r"^there is no variant set as default", "noDefaultVariant"),
    (r"^multiple default variants are set", "multipleDefaultVariants"),
    (r"^there is no field set as default", "noDefaultField"),
    (r"^multiple default fields are set", "multipleDefaultFields"),
    (r"^there is no field which is assigned for `Deref", "noDerefField"),
    (r"^there is no field for the `[^`]*` variant which is assigned for `Deref", "noDerefField"),
    (r"^multiple fields are set for `Deref", "multipleDerefFields"),
    (r"^multiple fields of the `[^`]*` variant are set for `Deref", "multipleDerefFields"),
    (r"^the type `[^`]*` is repeatedly set", "resetType"),
    (r"^there is no field which is assigned for `Into<", "noIntoField"),
    (r"^if you want to impl `Into<", "noIntoImpl"),
    (r"^multiple fields are set for `Into<", "multipleIntoFields"),
    (r"^a union's `", "unionWithoutUnsafe"),
    (r"^you are using `Educe` in the `derive` attribute, but it has not been set up yet", "notSetUp"),
]


def classify(msg):
    for rx, c in MESSAGE_CLASSES:
        if re.search(rx, msg):
            return c
    return "badValue"


def nospace(s):
    return s.replace(" ", "")


def trait_name(path):
    """`:: core :: cmp :: PartialEq` -> PartialEq ; `:: core :: convert :: Into < u8 >` -> Into<u8>"""
    p = nospace(path or "")
    m = re.match(r"^::core::\w+::(\w+)(<.*>)?$", p)
    if not m:
        return p
    return m.group(1) + (m.group(2) or "")


_vtool = {}


def vtool_path(features=None):
    if os.environ.get("VERIF_VTOOL"):
        return os.environ["VERIF_VTOOL"]          # e.g. a coverage-instrumented build (bin/coverage)
    key = tuple(features) if features is not None else None
    if key in _vtool:
        return _vtool[key]
    if features is None:
        _vtool[key] = common.build_vtool()
        return _vtool[key]
    # feature-subset build of the in-process view (C18)
    td = os.path.join(common.BUILD, "features", "-".join(features) or "none")
    with common.Lock("cargo-feat-" + ("-".join(features) or "none")):
        rc, out, err = common.run(["cargo", "build", "--offline", "-p", "vtool", "--target-dir", td,
                                   "--no-default-features"], cwd=common.HARNESS, timeout=3600)
    raise NotImplementedError


def expand_real(cases, repeat=0, exe=None, group=False):
    """cases: list of (id, src). Returns {id: result dict}. `group`: every definition is expanded three more times with
    its field types inside None-delimited groups, the way a macro_rules! macro hands `$t:ty` fragments to a derive
    (result key "group")."""
    exe = exe or vtool_path()
    lines = [json.dumps({"id": i, "src": s, **({"repeat": repeat} if repeat else {}), **({"group": True} if group else {})}) for i, s in cases]
    # The tool answers line by line; a watchdog notices an input on which the macro hangs or takes the
    # process down (stack overflow), records it as `abort` and restarts after it.
    import threading, queue
    out = {}
    pending = list(zip(cases, lines))
    stall = float(os.environ.get("VERIF_EXPAND_STALL_S", "20"))
    while pending:
        proc = subprocess.Popen([exe, "expand"], stdin=subprocess.PIPE, stdout=subprocess.PIPE, stderr=subprocess.DEVNULL, text=True)
        q = queue.Queue()

        def reader(pr=proc, qq=q):
            for l in pr.stdout:
                qq.put(l)
            qq.put(None)

        def writer(pr=proc, ls=[l for _, l in pending]):
            try:
                for l in ls:
                    pr.stdin.write(l + "\n")
                pr.stdin.close()
            except (BrokenPipeError, OSError, ValueError):
                pass

        threading.Thread(target=reader, daemon=True).start()
        threading.Thread(target=writer, daemon=True).start()
        done = 0
        while done < len(pending):
            try:
                l = q.get(timeout=stall)
            except queue.Empty:
                break
            if l is None:
                break
            if l.strip():
                r = json.loads(l)
                if isinstance(r.get("items"), dict):
                    # the macro returned tokens that are not a sequence of items (rustc: "proc-macro derive produced
                    # unparsable tokens"): not an accepted expansion
                    r["outcome"] = "unparsable"
                    r["message"] = "the expansion is not parsable as items: " + str(r["items"].get("reparse_error"))
                    r["items"] = []
                out[r["id"]] = r
                done += 1
        if done == len(pending):
            try:
                proc.wait(timeout=10)          # stdin is closed: let it exit by itself (and flush coverage data, if instrumented)
            except subprocess.TimeoutExpired:
                pass
        proc.kill()
        proc.wait()
        if done < len(pending):
            (i, s), _ = pending[done]
            out[i] = {"id": i, "outcome": "abort", "message": "the process died or stalled for %.0fs while expanding this input" % stall}
            pending = pending[done + 1:]
        else:
            pending = []
    return out



def expand_model(real, features=None):
    """Feed the oracle records of `real` (from expand_real) to the Lean driver. Returns {id: (outcome, items)}."""
    lines = []
    ids = []
    gkeys = {}
    for i, r in real.items():
        if "input" not in r:
            continue
        ids.append(i)
        req = ["expand", i, r["input"]]
        if features is not None:
            req.append(features)
        lines.append(json.dumps(req))
        # the grouped variants (field types inside None-delimited groups): the model reads their records as well
        for g in r.get("group") or []:
            if g.get("input") is not None:
                key = "g%s/%s" % (i, g["mode"])
                gkeys[key] = (i, g)
                lines.append(json.dumps(["expand", key, g["input"]] + ([features] if features is not None else [])))
    res = common.run_driver(lines)
    out = {}
    for l in res:
        if l and l[0] == "expand":
            if l[1] in gkeys:
                gkeys[l[1]][1]["model"] = (l[2], [(it["trait"], it["preds"], it["head"]) for it in l[3]])
            else:
                out[l[1]] = (l[2], l[3])
    for i, r in real.items():
        if i in out and r.get("group"):
            r["model_plain"] = (out[i][0], [(it["trait"], it["preds"], it["head"]) for it in out[i][1]])
    return out


def real_items(r):
    """[(trait name, appended predicates)] of a real expansion, user where-clause stripped."""
    user = [nospace(p) for p in r["input"]["generics"]["where"]]
    items = []
    for it in r["items"]:
        if "other" in it:
            items.append(("<non-impl item>", []))
            continue
        name = trait_name(it["trait"]) if it.get("trait") else "new"
        preds = [nospace(p) for p in it["where"]]
        if preds[: len(user)] == user:
            preds = preds[len(user):]
        else:
            preds = ["<user where-clause not reproduced>"] + preds
        items.append((name, preds))
    return items


def header_check(r):
    """Facts about every real impl header that must hold in every bound mode (C12)."""
    bad = []
    g = r["input"]["generics"]
    want_params = [nospace(p) for p in g["impl_params"]]
    want_self = nospace(r["input"]["name"] + g["ty_generics"])
    for it in r["items"]:
        if "other" in it:
            continue
        if [nospace(p) for p in it["params"]] != want_params:
            bad.append("impl generics %s != %s" % (it["params"], g["impl_params"]))
        if nospace(it["self_ty"]) != want_self:
            bad.append("self type %s != %s" % (it["self_ty"], want_self))
    # helper impls inside the generated bodies that are generic over the type's parameters (the Debug method
    # wrapper) must repeat the parameters and the user's where-clause as well, and add nothing
    user = [nospace(p) for p in g["where"]]
    for it in r.get("nested", []):
        if not it["params"]:
            continue
        if [nospace(p) for p in it["params"]] != want_params:
            bad.append("helper impl for %s: generics %s != %s" % (it["self_ty"], it["params"], g["impl_params"]))
        if [nospace(p) for p in it["where"]] != user:
            bad.append("helper impl for %s: where-clause %s != the type's %s" % (it["self_ty"], it["where"], g["where"]))
    return bad


def compare(r, m, strict_class=True, compare_items=True):
    """Discrepancies between a real result and the model's. Returns list of strings."""
    bad = []
    outcome, items = m
    if r["outcome"] == "panic":
        if not outcome.startswith("panic"):
            bad.append("implementation panicked (%s), model: %s" % (r.get("message"), outcome))
        return bad
    if outcome.startswith("panic"):
        bad.append("model predicts a panic (%s), implementation: %s" % (outcome, r["outcome"]))
        return bad
    if r["outcome"] == "err":
        if not outcome.startswith("diag:"):
            bad.append("implementation refused (%s), model accepts" % r["message"][:120])
        elif strict_class:
            rc, mc = classify(r["message"]), outcome[5:]
            if mc == "reprError":
                mc = "badValue"
            if rc != mc:
                bad.append("diagnostic class: implementation %s (%s), model %s" % (rc, r["message"][:80], mc))
        return bad
    # ok
    if not outcome == "ok":
        bad.append("implementation accepts, model: %s" % outcome)
        return bad
    if compare_items:
        ri = real_items(r)
        mi = [(it["trait"], it["preds"]) for it in items]
        if [x[0] for x in ri] != [x[0] for x in mi]:
            bad.append("impl items: implementation %s, model %s" % ([x[0] for x in ri], [x[0] for x in mi]))
        else:
            for (n, rp), (_, mp) in zip(ri, mi):
                if rp != mp:
                    bad.append("where-predicates of %s: implementation %s, model %s" % (n, rp, mp))
        bad += header_check(r)
        # Default: a literal is wrapped in `::core::convert::Into::into( .. )` exactly where the model of
        # `auto_adjust_expr` (Attr/Builders.lean: `adjust`) says so
        for it, mit in zip(r["items"], items):
            if not isinstance(it, dict) or mit["trait"] != "Default" or "tokens" not in it:
                continue
            tk = nospace(it["tokens"])
            exprs = []
            head = mit.get("head") or []
            if len(head) >= 2 and head[0] == "typeexpr":
                exprs.append(head[1])
            for v in mit.get("variants") or []:
                exprs += [f[1] for f in v.get("fields", []) if len(f) >= 2]
            wrapped = {}
            for e in exprs:
                if isinstance(e, str) and e.startswith("into:"):
                    wrapped[e[5:]] = wrapped.get(e[5:], 0) + 1
            total = tk.count("::core::convert::Into::into(")
            if total != sum(wrapped.values()) or any(tk.count("::core::convert::Into::into(%s)" % t) < n for t, n in wrapped.items()):
                bad.append("Default: the implementation converts %d default expressions with Into, the model %d (%s)"
                           % (total, sum(wrapped.values()), sorted(wrapped)))
        # Deref: the associated type `Target` is the fully dereferenced type of the designated field (model: head of the item)
        for it, mit in zip(r["items"], items):
            tgt = (it.get("assoc") or {}).get("Target") if isinstance(it, dict) else None
            if tgt is not None and mit["trait"] in ("Deref",) and mit.get("head"):
                want = mit["head"][1] if len(mit["head"]) == 3 else mit["head"][0]
                if nospace(tgt) != want:
                    bad.append("Deref::Target: implementation %s, model %s" % (tgt, want))
    return bad


def confirm_panic_with_rustc(src, prelude=""):
    """Re-run an in-process panic through the real proc-macro under rustc (the fallback token printer
    of proc_macro2 differs from rustc's). Returns True iff rustc reports a proc-macro panic."""
    so = common.build_proc_macro()
    d = common.scratch("panic")
    try:
        path = os.path.join(d, "p.rs")
        open(path, "w").write("#![allow(dead_code)]\nuse educe::Educe;\n%s\n%s\nfn main() {}\n" % (prelude, src))
        rc, diags = common.rustc_compile(path, os.path.join(d, "p"), so)
        text = " ".join((x.get("rendered") or x.get("message") or "") for x in diags)
        return "proc-macro derive panicked" in text or "panicked" in text
    finally:
        import shutil
        shutil.rmtree(d, ignore_errors=True)


def grouped_findings(r, src):
    """What the grouped expansions of one definition (expand_real(.., group=True)) show: (failing, broken) lists.
    A panic is believed after rustc, given the definition as the output of a macro_rules! macro, reports it too."""
    failing, broken = [], []
    for g in r.get("group") or []:
        if g["outcome"] == "panic" and r["outcome"] != "panic":
            msrc = g.get("macro_src")
            if msrc and confirm_panic_with_rustc(msrc):
                failing.append({"what": "proc-macro derive panicked on a definition whose field types come from `$t:ty` macro fragments",
                                "rust_source": msrc, "observed": g.get("message"), "expected_spec": "a diagnostic or generated items"})
            elif not msrc:
                broken.append("grouped expansion (mode %s) panics in-process: %s" % (g["mode"], str(g.get("message"))[:150]))
        elif g["outcome"] != r["outcome"]:
            failing.append({"what": "a definition is %s when written in place but %s when its field types come from `$t:ty` macro fragments"
                                    % (r["outcome"], g["outcome"]), "rust_source": g.get("macro_src") or src, "observed": g.get("message")})
        elif not g.get("same_tokens", True):
            broken.append("a definition expands to different tokens when its field types come from macro fragments (mode %s)" % g["mode"])
        if g.get("model") is not None and r.get("model_plain") is not None and g["mode"] < 3 and g["model"] != r["model_plain"]:
            broken.append("the model reads a definition differently when its field types come from macro fragments (mode %s): %s vs %s"
                          % (g["mode"], str(g["model"])[:150], str(r["model_plain"])[:150]))
    return failing, broken


# ---------------------------------------------------------------------------- input pools

def valid_pool(rng, n, start_id=0):
    """Valid definitions drawn from the behavioural generators (all traits, all spellings)."""
    from .props import c02, c03, c04, c05, c06, c07, c08, c09, c10, c20
    makers = [c02.P(100), c03.P(100), c04.P(100), c05.P(100), c06.P(), c07.P(100), c08.P(), c09.P(), c10.P(), c20.P()]
    out = []
    for i in range(n):
        p = rng.choice(makers)
        td = p.make(rng, start_id + i)
        out.append((start_id + i, td.render(bare=True), td))
    return out
