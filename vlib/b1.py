"""B1 — behavioural correspondence.

The real proc-macro (built from /repo's working tree) is applied by rustc to generated type
definitions; the compiled program prints measured leaf tables and one JSON line per observation
`[op, def, args..., result]`. The Lean driver answers the same observations with the *model*
(`Sem` on `Gen`) and the *spec*; three-way diff:

  impl vs spec   -> the property itself (a difference is a failing input),
  impl vs model  -> the correspondence (model is not the code),
  model vs spec  -> a theorem, so a difference here is a driver/harness bug and is reported as such.
"""
import json, os, random, subprocess, time
from . import common, gen


class Plugin:
    """Per-property hooks."""
    ops = ()                       # op names this plugin emits
    driver_traits = ()             # per-field request keys sent to the driver

    def configure(self, rng, td):  # draw abstract requests, render attributes
        raise NotImplementedError

    def observe(self, td, vals):   # Rust statements (string) printing observation lines
        raise NotImplementedError

    def nontrivial(self, td):      # is this definition non-trivial for the property
        return True


RUN_START = {}    # def id -> first line of its `run()` (lines before it are the definition itself)

PANIC_HOOK = '''    ::std::panic::set_hook(Box::new(|info| {
        let line = info.location().map(|l| l.line()).unwrap_or(0);
        let msg: String = info.to_string().chars().map(|c| if c.is_ascii_alphanumeric() || " _:.,-".contains(c) { c } else { ' ' }).collect();
        println!("[\\"panic_at\\",{},\\"{}\\"]", line, msg);
    }));'''


def build_program(defs, plugin, rng, cap_vals):
    parts = [gen.PRELUDE + getattr(plugin, "prelude_extra", "")]
    mains = []
    line_map = []   # (first line, last line, def id)
    cur = parts[0].count("\n") + 1
    vals_by_def = {}
    for td in defs:
        vals = [] if getattr(plugin, "no_values", False) else gen.value_tuples(rng, td, cap_vals)
        vals_by_def[td.id] = vals
        body = plugin.observe(td, vals)
        head = "mod d%d {\n use super::prelude::*; %s\n%s\n" % (td.id, getattr(plugin, "mod_uses", ""), td.render())
        src = head + " pub fn run() {\n%s\n }\n}\n" % body
        n = src.count("\n")
        line_map.append((cur, cur + n, td.id))
        RUN_START[td.id] = cur + head.count("\n")
        cur += n
        parts.append(src)
        # a panic inside one definition's observations must not hide the others (and is itself an observation)
        mains.append("    if ::std::panic::catch_unwind(|| d%d::run()).is_err() { println!(\"[\\\"panic\\\",%d]\"); }" % (td.id, td.id))
    extra_tables = plugin.tables() if hasattr(plugin, "tables") else ""
    parts.append("fn main() {\n%s\n%s\n%s\n%s\n}\n" % (PANIC_HOOK, gen.leaf_table_code(), extra_tables, "\n".join(mains)))
    return "".join(parts), line_map, vals_by_def


def def_of_line(line_map, line):
    for a, b, d in line_map:
        if a <= line <= b:
            return d
    return None


def run_b1(prop_id, plugin, n_defs, cap_vals, seed, corpus=None):
    """Returns the `tie` dict consumed by common.finish."""
    rng = random.Random(seed)
    tie = {"evaluations": 0, "distinct_nontrivial": 0, "failing": [], "broken": [], "broken_details": [],
           "known": [], "samples": [], "extra": {}}
    defs = []
    for i in range(n_defs):
        td = plugin.make(rng, i)
        defs.append(td)
    by_id = {td.id: td for td in defs}
    src, line_map, vals_by_def = build_program(defs, plugin, rng, cap_vals)
    d = common.scratch(prop_id)
    try:
        main_rs = os.path.join(d, "main.rs")
        open(main_rs, "w").write(src)
        try:
            so = common.build_proc_macro()
        except common.BuildError as e:
            tie["broken"].append("B1: " + str(e))
            tie["broken_details"].append(e.log)
            return tie
        exe = os.path.join(d, "prog")
        rc, diags = common.rustc_compile(main_rs, exe, so)
        errors = [x for x in diags if x.get("level") == "error" and x.get("spans")]
        if rc != 0:
            # the definition(s) that do not compile are their own failing inputs
            bad = {}
            for e in errors:
                ln = e["spans"][0]["line_start"]
                k = def_of_line(line_map, ln)
                bad.setdefault(k, []).append(e.get("rendered") or e.get("message"))
            for k, msgs in list(bad.items())[:3]:
                tie["failing"].append({"what": "generated code for an accepted, well-typed definition does not compile",
                                       "rust_source": by_id[k].render() if k in by_id else None,
                                       "rustc": msgs[:3]})
            if not tie["failing"]:
                tie["broken"].append("B1: generated program does not compile")
                tie["broken_details"].append([x.get("rendered") for x in diags[:5]])
            return tie
        p = subprocess.run([exe], capture_output=True, text=True, timeout=1800)
        if p.returncode != 0:
            tie["broken"].append("B1: generated program crashed rc=%d" % p.returncode)
            tie["broken_details"].append(p.stderr[-2000:])
            return tie
        impl_lines = [json.loads(l) for l in p.stdout.splitlines() if l.startswith("[")]
        panics = [l for l in impl_lines if l[0] in ("panic", "panic_at")]
        impl_lines = [l for l in impl_lines if l[0] not in ("panic", "panic_at")]
        last_at = None
        for l in panics:
            if l[0] == "panic_at":
                last_at = l
                continue
            td = by_id.get(l[1])
            line, msg = (last_at[1], last_at[2]) if last_at else (0, "")
            in_definition = td is not None and def_of_line(line_map, line) == td.id and line < RUN_START.get(td.id, 0)
            if in_definition:
                # the panic is located in the type definition, i.e. in code the derive generated from it
                tie["failing"].append({"what": "the generated impl panics at run time on an accepted, well-typed definition",
                                       "rust_source": td.render(), "panic": msg, "line_in_program": line})
            else:
                tie["broken"].append("B1: observation code of definition %s panicked at line %s: %s" % (l[1], line, msg[:200]))
                tie["broken_details"].append({"rust_source": td.render() if td else None})
            last_at = None
    finally:
        import shutil
        shutil.rmtree(d, ignore_errors=True)

    tables = [l for l in impl_lines if l[0] not in plugin.ops]
    obs = [l for l in impl_lines if l[0] in plugin.ops]
    drv_in = [json.dumps(l) for l in tables]
    for td in defs:
        drv_in.append(json.dumps(["def", td.id, td.to_json(plugin.driver_traits)]))
    for l in obs:
        drv_in.append(json.dumps(l[:-1]))
    drv_out = common.run_driver(drv_in)
    drv_res = [l for l in drv_out if l and l[0] != "error"]
    errs = [l for l in drv_out if l and l[0] == "error"]
    if errs or len(drv_res) != len(obs):
        tie["broken"].append("B1: driver answered %d of %d observations (%s)" % (len(drv_res), len(obs), errs[:2]))
        return tie

    distinct = {}
    bad_spec, bad_model, bad_thm = [], [], []
    if hasattr(plugin, "prepare"):
        plugin.prepare(tables)
    agree = getattr(plugin, "agree", lambda a, b: a == b)
    for o, r in zip(obs, drv_res):
        impl, model, spec = plugin.canon(o[-1]), r[-2], r[-1]
        tie["evaluations"] += 1
        distinct.setdefault(o[1], set()).add(json.dumps(impl))
        if not agree(impl, spec):
            bad_spec.append((o, model, spec))
        elif not agree(impl, model):
            bad_model.append((o, model, spec))
        if model != spec:
            bad_thm.append((o, model, spec))
    # distinct non-trivial: definitions that are non-trivial for the property AND on which at least
    # two different results were observed
    need = getattr(plugin, "min_distinct", 2)
    tie["distinct_nontrivial"] = sum(1 for td in defs if plugin.nontrivial(td) and len(distinct.get(td.id, ())) >= need)
    tie["rule"] = plugin.rule
    for td in defs[:3]:
        ex = [o for o in obs if o[1] == td.id][:2]
        tie["samples"].append({"rust_source": td.render(), "observations": ex})
    tie["extra"]["definitions"] = len(defs)
    tie["extra"]["shape_histogram"] = histogram(defs)
    for o, model, spec in bad_spec[:3]:
        td = by_id[o[1]]
        tie["failing"].append({"what": "implementation result differs from the reference semantics",
                               "rust_source": td.render(), "observation": o[:-1], "observed": o[-1],
                               "expected_spec": spec, "model": model, "config": td.to_json(plugin.driver_traits)})
    if bad_model and not bad_spec:
        tie["broken"].append("B1: model disagrees with implementation on %d observations (spec agrees with implementation)" % len(bad_model))
        tie["broken_details"] += [{"rust_source": by_id[o[1]].render(), "observation": o, "model": m} for o, m, s in bad_model[:3]]
    if bad_thm and not bad_spec:
        tie["broken"].append("harness: model and spec differ on %d observations although they are proved equal (driver bug or ill-formed input)" % len(bad_thm))
        tie["broken_details"] += [{"observation": o, "model": m, "spec": s} for o, m, s in bad_thm[:3]]
    real = config_tie(tie, plugin, defs)
    if real:
        e2e_tie(tie, plugin, defs, real, tables, obs)
    tie["broken"] = tie["broken"][:4]
    return tie


CFG_KIND = {"PartialEq": "cmp", "Hash": "cmp", "Ord": "cmp", "PartialOrd": "cmp", "Debug": "debug", "Clone": "clone", "Deref": "deref", "DerefMut": "deref"}


def config_tie(tie, plugin, defs):
    """B5: the attribute-layer model (Expand.lean), fed with syn's records of the same definitions, must read every
    field's configuration (ignore / method / rank / rename / designated field) as the generator intended it -
    the configuration the behavioural model was just validated on."""
    from . import attr
    cases = [(td.id, td.render(bare=True)) for td in defs]
    try:
        real = attr.expand_real(cases)
        model = attr.expand_model(real)
    except (common.BuildError, RuntimeError) as e:
        tie["broken"].append("B5: " + str(e)[:300])
        return None
    checked = 0
    for td in defs:
        r, m = real.get(td.id), model.get(td.id)
        if not r or r["outcome"] != "ok":
            continue            # the behavioural part already reported what the compiler said
        if not m or m[0] != "ok":
            tie["broken"].append("B5: the attribute-layer model does not accept a definition the implementation accepts: %s" % (m[0] if m else "no result"))
            tie["broken_details"].append({"rust_source": cases[[c[0] for c in cases].index(td.id)][1]})
            continue
        items = {it["trait"]: it for it in m[1]}
        for t, kind in CFG_KIND.items():
            it = items.get(t)
            if it is None or not any(t in f.req for v in td.variants for f in v.fields):
                continue
            diffs = []
            if kind == "deref":
                if td.kind == "union":
                    continue
                for k, v in enumerate(td.variants):
                    flagged = [j for j, f in enumerate(v.fields) if f.req.get(t, {}).get("flag")]
                    want = flagged[0] if flagged else (0 if len(v.fields) == 1 else None)
                    got = it["head"][0] if td.kind == "struct" else (it["variants"][k]["cfg"][0] if k < len(it["variants"]) else None)
                    if want is not None and str(want) != got:
                        diffs.append("variant %d: designated field %s, model %s" % (k, want, got))
            else:
                if not it["variants"] or len(it["variants"]) != len(td.variants):
                    continue    # companion item (PartialOrd next to Ord) or union form: no per-field configuration
                for k, v in enumerate(td.variants):
                    mf = it["variants"][k]["fields"]
                    if len(mf) != len(v.fields):
                        diffs.append("variant %d: %d fields, model %d" % (k, len(v.fields), len(mf)))
                        continue
                    for j, f in enumerate(v.fields):
                        req = f.req.get(t)
                        if req is None:
                            continue
                        row = mf[j]
                        if kind == "clone":
                            got = {"method": row[1] != "none"}
                            want = {"method": req.get("method") is not None}
                        else:
                            got = {"ignore": row[1] == "true", "method": row[2] != "none"}
                            want = {"ignore": bool(req.get("ignore")), "method": req.get("method") is not None}
                            if kind == "cmp" and "rank" in req:
                                got["rank"] = None if row[3] == "none" else int(row[3])
                                want["rank"] = req.get("rank")
                            if kind == "debug":
                                got["rename"] = None if row[3] == "none" else row[3][5:]
                                want["rename"] = req.get("rename") or None
                            if want["ignore"]:
                                got = {"ignore": got["ignore"]}      # nothing else matters for an ignored field
                                want = {"ignore": True}
                        if got != want:
                            diffs.append("variant %d field %d (%s): generator %s, model %s" % (k, j, t, want, got))
            checked += 1
            if diffs:
                tie["broken"].append("B5: the attribute-layer model reads the attributes differently from what the generator wrote: " + diffs[0])
                tie["broken_details"].append({"rust_source": td.render(bare=True), "trait": t, "differences": diffs[:5]})
        # Default: which value is built (type expression / struct / variant k / union field i), which fields carry
        # an expression, and whether `new` is emitted
        it = items.get("Default")
        if it is not None and "typeexpr" in td.extra_json:
            diffs = []
            te = td.extra_json.get("typeexpr")
            if te is not None:
                want_head = "typeexpr"
            elif td.kind == "struct":
                want_head = "struct"
            elif td.kind == "enum":
                k = [j for j, v in enumerate(td.variants) if getattr(v, "dflag", False)]
                want_head = "variant %d" % (k[0] if k else 0)
            else:
                fl = [j for j, f in enumerate(td.variants[0].fields) if f.req.get("Default", {}).get("flag") or f.req.get("Default", {}).get("expr") is not None]
                want_head = "unionfield %d" % (fl[0] if fl else 0)
            got_head = " ".join(it["head"][:2]) if it["head"] and it["head"][0] in ("variant", "unionfield") else (it["head"][0] if it["head"] else "")
            if got_head != want_head:
                diffs.append("built value: generator %s, model %s" % (want_head, got_head))
            if te is None and td.kind in ("struct", "enum") and it["variants"]:
                v = td.variants[0] if td.kind == "struct" else td.variants[int(want_head.split()[1])]
                rows = it["variants"][0]["fields"]
                if len(rows) == len(v.fields):
                    for j, f in enumerate(v.fields):
                        w = f.req.get("Default", {}).get("expr") is not None
                        g = rows[j][1] != "none"
                        if w != g:
                            diffs.append("field %d: expression %s, model %s" % (j, w, g))
                else:
                    diffs.append("%d fields, model %d" % (len(v.fields), len(rows)))
            if bool(td.extra_json.get("new")) != ("new" in items):
                diffs.append("new(): generator %s, model %s" % (bool(td.extra_json.get("new")), "new" in items))
            checked += 1
            if diffs:
                tie["broken"].append("B5: the attribute-layer model reads the Default attributes differently from what the generator wrote: " + diffs[0])
                tie["broken_details"].append({"rust_source": td.render(bare=True), "trait": "Default", "differences": diffs[:5]})
        # Into: per target the designated field of every variant (marked, else the sole field, else the unique field of
        # that type), and whether a custom method is used
        if "targets" in td.extra_json and td.kind != "union":
            tynames = getattr(plugin, "type_names", None)
            for tix in td.extra_json["targets"]:
                if not tynames:
                    break
                it = items.get("Into<%s>" % tynames[tix])
                if it is None:
                    tie["broken"].append("B5: the attribute-layer model has no Into<%s> item" % tynames[tix])
                    tie["broken_details"].append({"rust_source": td.render(bare=True)})
                    continue
                diffs = []
                for k, v in enumerate(td.variants):
                    marked = [(j, mk) for j, f in enumerate(v.fields) for mk in f.req.get("Into", {}).get("markers", []) if mk[0] == tix]
                    if marked:
                        want, meth = marked[0][0], marked[0][1][1] is not None
                    elif len(v.fields) == 1:
                        want, meth = 0, False
                    else:
                        same = [j for j, f in enumerate(v.fields) if f.req.get("Into", {}).get("ty") == tix]
                        if len(same) != 1:
                            continue
                        want, meth = same[0], False
                    cfg = it["variants"][k]["cfg"] if k < len(it["variants"]) else None
                    if cfg is None or cfg[0] != str(want) or (cfg[1] != "none") != meth:
                        diffs.append("variant %d target %s: generator field %d method %s, model %s" % (k, tynames[tix], want, meth, cfg))
                checked += 1
                if diffs:
                    tie["broken"].append("B5: the attribute-layer model designates a different Into field: " + diffs[0])
                    tie["broken_details"].append({"rust_source": td.render(bare=True), "trait": "Into", "differences": diffs[:5]})
    tie["extra"]["attribute_model_configs_compared"] = checked
    tie["rule"] = tie.get("rule", "") + ("; B5: the same definitions are expanded in-process and syn's records fed to the attribute-layer model "
                                        "(Expand.lean): per trait its per-field configuration (ignore / method / rank / rename / designated "
                                        "field) must equal what the generator wrote")
    return real


E2E_OPS = ("eq", "ne", "cmp", "pcmp", "cmpw", "pcmpw", "hash", "eqhash", "clone", "clonefrom", "dbg", "dbgd", "deref", "derefmut", "write", "into", "default", "new")
E2E_OFFSET = 1000000


def e2e_tie(tie, plugin, defs, real, tables, obs):
    """B6 - end to end: the observations are answered once more by the model with every attribute-determined part of the
    configuration (ignore / method / rank per field, the carrier trait, Copy next to Clone, Ord next to PartialOrd) taken not
    from what the generator intended but from the attribute-layer model run on syn's records of the real tokens and converted by
    `Bridge.lean` - the composition the theorems of Props/E2E.lean are about. Its answers must equal the implementation's."""
    sel_ops = [o for o in obs if o[0] in E2E_OPS]
    if not sel_ops:
        return
    methods = [["%s_m_%s" % (k, ty), i] for k in ("eq", "cmp", "pcmp", "hash", "clone", "dbg") for i, ty in enumerate(gen.METHOD_LEAVES)]
    methods += [[name, mid] for name, mid in getattr(plugin, "extra_methods", [])]
    types = list(getattr(plugin, "type_names", None) or [])
    lines = [json.dumps(l) for l in tables]
    want = {}
    for td in defs:
        r = real.get(td.id)
        if not r or r.get("outcome") != "ok" or "input" not in r:
            continue
        lines.append(json.dumps(["defe2e", td.id + E2E_OFFSET, td.to_json(plugin.driver_traits), r["input"], methods, types]))
        want[td.id] = td
    sel = [o for o in sel_ops if o[1] in want]
    for o in sel:
        l = list(o[:-1])
        l[1] += E2E_OFFSET
        lines.append(json.dumps(l))
    out = common.run_driver(lines)
    acks = [l for l in out if l and l[0] == "defe2e"]
    res = [l for l in out if l and l[0] in E2E_OPS]
    errs = [l for l in out if l and l[0] == "error"]
    refused = [l for l in acks if l[2] != "ok"]
    by_id = {td.id: td for td in defs}
    for l in refused[:2]:
        tie["broken"].append("B6: the end-to-end model refuses a definition the implementation accepts: %s" % l[2])
        tie["broken_details"].append({"rust_source": by_id[l[1] - E2E_OFFSET].render(bare=True)})
    bad_ids = {l[1] for l in refused}
    sel = [o for o in sel if o[1] + E2E_OFFSET not in bad_ids]
    res = [l for l in res if l[1] not in bad_ids]
    if errs or len(res) != len(sel):
        tie["broken"].append("B6: driver answered %d of %d end-to-end observations (%s)" % (len(res), len(sel), errs[:2]))
        return
    agree = getattr(plugin, "agree", lambda a, b: a == b)
    bad = []
    for o, r in zip(sel, res):
        impl, model = plugin.canon(o[-1]), r[-2]
        if not agree(impl, model):
            bad.append((o, model))
    tie["extra"]["end_to_end_definitions"] = len(want) - len(bad_ids)
    tie["extra"]["end_to_end_observations"] = len(sel)
    if bad and not tie["failing"]:
        tie["broken"].append("B6: the end-to-end model (attributes -> configuration -> body) disagrees with the implementation on %d observations" % len(bad))
        tie["broken_details"] += [{"rust_source": by_id[o[1]].render(bare=True), "observation": o, "model_end_to_end": m} for o, m in bad[:3]]
    tie["rule"] = tie.get("rule", "") + ("; B6: every observation is answered a second time by the composed model of Props/E2E.lean - syn's records of "
                                        "the real tokens -> attribute-layer scan -> Bridge -> generated body -> evaluation - and must equal the implementation")


def histogram(defs):
    h = {}
    for td in defs:
        for v in td.variants:
            key = "%s/%s/%d" % (td.kind, v.shape, len(v.fields))
            h[key] = h.get(key, 0) + 1
        if not td.variants:
            h["enum/empty"] = h.get("enum/empty", 0) + 1
    return h
